"""Monitor context: clause counters, distinct-case bookkeeping, violations, reach.

One Ctx lives in each shard process; the CLI merges the JSON dumps.
Verdicts are three-valued (DESIGN.md section 6): a clause evaluation is
`held`, `violated` or `skipped`; a run with a deciding clause or must-reach
branch at zero is `inconclusive`.
"""
from __future__ import annotations

import hashlib
import json
import math
import os
import time
from collections import Counter, defaultdict

import numpy as np

EPS = float(np.finfo(float).eps)

MAX_VIOL_KEPT = 400          # per shard; counts are always exact
MAX_SAMPLES = 6


def digest(*objs) -> str:
    """Short stable digest of arrays / scalars / strings (distinct-case counting)."""
    h = hashlib.sha1()
    for o in objs:
        if isinstance(o, np.ndarray):
            if o.dtype.name == "quaternion":
                import quaternion  # noqa: F401
                o = quaternion.as_float_array(o)
            h.update(str(o.shape).encode())
            h.update(str(o.dtype).encode())
            h.update(np.ascontiguousarray(o).tobytes())
        elif isinstance(o, (list, tuple)):
            h.update(digest(*o).encode())
        elif isinstance(o, dict):
            h.update(json.dumps(o, sort_keys=True, default=str).encode())
        else:
            h.update(repr(o).encode())
    return h.hexdigest()[:16]


def _jsonable(o):
    if isinstance(o, dict):
        return {str(k): _jsonable(v) for k, v in o.items()}
    if isinstance(o, (list, tuple, set)):
        return [_jsonable(v) for v in o]
    if isinstance(o, np.ndarray):
        if o.dtype.name == "quaternion":
            import quaternion
            o = quaternion.as_float_array(o)
        if o.size > 400:
            return {"shape": list(o.shape), "digest": digest(o)}
        return _jsonable(o.tolist())
    if isinstance(o, (np.integer,)):
        return int(o)
    if isinstance(o, (np.floating, float)):
        f = float(o)
        return f if math.isfinite(f) else repr(f)
    if isinstance(o, complex):
        return [o.real, o.imag]
    if isinstance(o, (np.bool_, bool)):
        return bool(o)
    if o is None or isinstance(o, (int, str)):
        return o
    return repr(o)


class Ctx:
    def __init__(self, prop: str, tier: str, seed: int, shard: int = 0, nshards: int = 1):
        self.prop, self.tier, self.seed = prop, tier, seed
        self.shard, self.nshards = shard, nshards
        self.clauses = defaultdict(
            lambda: {"evaluated": 0, "held": 0, "violated": 0, "skipped": 0, "max_ratio": 0.0})
        self.classes = Counter()
        self.case_digests = set()
        self.evaluations = 0
        self.violations = []          # first witness per (clause, site, tags)
        self.viol_counts = Counter()  # exact counts per key
        self.reach = Counter()
        self.reach_states = defaultdict(set)
        self.samples = []
        self.sites = Counter()
        self.notes = []
        self.spec = None              # the case spec currently executing (witness)
        self.t0 = time.time()

    # -- cases -----------------------------------------------------------------
    def begin(self, spec: dict) -> None:
        self.spec = spec
        self.evaluations += 1
        self.classes[str(spec.get("cls", spec.get("kind", "?")))] += 1

    def distinct(self, *objs, nontrivial: bool = True) -> None:
        """Register the (digest of the) concrete input of the current case."""
        if nontrivial:
            self.case_digests.add(digest(*objs))

    def sample(self, obj) -> None:
        if len(self.samples) < MAX_SAMPLES:
            self.samples.append(_jsonable(obj))

    # -- clause evaluation -------------------------------------------------------
    def check(self, clause: str, value, bound=None, *, site: str = "", tags=(), detail=None) -> bool:
        """Judge one clause.  `value` is either a bool (bound None) or an observed
        deviation compared with `bound` (violation iff value > bound or not finite)."""
        c = self.clauses[clause]
        c["evaluated"] += 1
        self.sites[site] += 1
        if bound is None:
            ok = bool(value)
            ratio = 0.0 if ok else float("inf")
        else:
            v, b = float(value), float(bound)
            if not math.isfinite(v) or not (b > 0):
                ok, ratio = False, float("inf")
            else:
                ratio = v / b
                ok = ratio <= 1.0
        if ok:
            c["held"] += 1
            if ratio > c["max_ratio"]:
                c["max_ratio"] = ratio
            return True
        c["violated"] += 1
        key = (clause, site, tuple(sorted(tags)))
        self.viol_counts[key] += 1
        if self.viol_counts[key] == 1 and len(self.violations) < MAX_VIOL_KEPT:
            self.violations.append({
                "clause": clause, "site": site, "tags": sorted(tags),
                "value": _jsonable(value), "bound": _jsonable(bound),
                "detail": _jsonable(detail), "case": _jsonable(self.spec),
            })
        return False

    def skip(self, clause: str, reason: str = "") -> None:
        self.clauses[clause]["skipped"] += 1

    def hit(self, branch: str, state=None) -> None:
        self.reach[branch] += 1
        if state is not None and len(self.reach_states[branch]) < 64:
            self.reach_states[branch].add(repr(state))

    def note(self, msg: str) -> None:
        if len(self.notes) < 50:
            self.notes.append(msg)

    # -- serialisation -------------------------------------------------------------
    def dump(self) -> dict:
        return {
            "prop": self.prop, "tier": self.tier, "seed": self.seed,
            "shard": self.shard, "nshards": self.nshards,
            "clauses": {k: dict(v) for k, v in self.clauses.items()},
            "classes": dict(self.classes),
            "case_digests": sorted(self.case_digests),
            "evaluations": self.evaluations,
            "violations": self.violations,
            "viol_counts": [[list(k[:2]) + [list(k[2])], n] for k, n in self.viol_counts.items()],
            "reach": dict(self.reach),
            "reach_states": {k: sorted(v) for k, v in self.reach_states.items()},
            "samples": self.samples,
            "sites": dict(self.sites),
            "notes": self.notes,
            "wall_s": time.time() - self.t0,
        }


def merge(dumps: list[dict]) -> dict:
    out = {
        "clauses": {}, "classes": Counter(), "case_digests": set(), "evaluations": 0,
        "violations": [], "viol_counts": Counter(), "reach": Counter(),
        "reach_states": defaultdict(set), "samples": [], "sites": Counter(), "notes": [],
    }
    for d in dumps:
        for k, v in d["clauses"].items():
            c = out["clauses"].setdefault(
                k, {"evaluated": 0, "held": 0, "violated": 0, "skipped": 0, "max_ratio": 0.0})
            for f in ("evaluated", "held", "violated", "skipped"):
                c[f] += v[f]
            c["max_ratio"] = max(c["max_ratio"], v["max_ratio"])
        out["classes"].update(d["classes"])
        out["case_digests"].update(d["case_digests"])
        out["evaluations"] += d["evaluations"]
        out["violations"].extend(d["violations"])
        for k, n in d["viol_counts"]:
            out["viol_counts"][(k[0], k[1], tuple(k[2]))] += n
        out["reach"].update(d["reach"])
        for k, v in d["reach_states"].items():
            out["reach_states"][k].update(v)
        for s in d["samples"]:
            if len(out["samples"]) < MAX_SAMPLES:
                out["samples"].append(s)
        out["sites"].update(d["sites"])
        out["notes"].extend(d["notes"])
    return out


def workdir(prop: str) -> str:
    base = os.environ.get("VQ_OUT") or os.path.dirname(os.path.dirname(os.path.abspath(__file__)))
    d = os.path.join(base, ".work", prop)
    os.makedirs(d, exist_ok=True)
    return d
