"""./check <ID> [--tier quick|thorough] [--seed N] [--replay witness.json]

Runs the monitors of one property against VQ_REPO's working tree in shard
subprocesses, merges what they observed, classifies violations against the
committed known-findings file and writes evidence/<ID>.json.

Exit codes: 0 held on everything explored (KNOWN-FINDING lines allowed),
1 violation (a `VIOLATION property=<id> replay=<path>` line per distinct
violation), 3 inconclusive (a deciding monitor / must-reach branch saw nothing,
or a shard timed out).
"""
from __future__ import annotations

import argparse
import fnmatch
import importlib
import json
import os
import subprocess
import sys
import time
import traceback

HERE = os.path.dirname(os.path.dirname(os.path.abspath(__file__)))

# VQ_OUT redirects evidence/, witness/ and .work/ (used when checks are run against scratch
# copies of the repository, so that committed evidence only ever comes from /repo itself)
OUT = os.environ.get("VQ_OUT", HERE)

PROPS = [f"C{i:02d}" for i in range(1, 21)]
INTERNAL_BRANCH_PREFIXES = {"ns", "gmres", "householder", "eig", "hessenbergize", "rand", "pass", "rsp", "hybrid", "pi", "nh", "ggivens", "grs",
                            "spd", "cgne", "utri"}


def _env_defaults() -> None:
    for k in ("OPENBLAS_NUM_THREADS", "OMP_NUM_THREADS", "MKL_NUM_THREADS"):
        os.environ.setdefault(k, "1")
    os.environ.setdefault("PYTHONHASHSEED", "0")
    os.environ.setdefault("MPLBACKEND", "Agg")


def load_monitor(pid: str):
    return importlib.import_module(f"vq.monitors.{pid.lower()}")


def load_known_findings() -> dict:
    p = os.path.join(HERE, "known_findings.json")
    if not os.path.exists(p):
        return {"findings": [], "fixed": []}
    with open(p) as f:
        return json.load(f)


# --------------------------------------------------------------------------------------
# shard worker
# --------------------------------------------------------------------------------------

def run_shard(pid: str, tier: str, seed: int, shard: int, nshards: int, out: str) -> int:
    _env_defaults()
    import numpy as np  # noqa: F401
    from . import core, repo
    from .oracle import embed

    ctx = core.Ctx(pid, tier, seed, shard, nshards)
    mon = load_monitor(pid)
    if os.environ.get("VQ_ERRSTATE"):                     # development aid (DESIGN section 7 rule 19): find out where the unchanged tree divides by zero
        np.seterr(divide=os.environ["VQ_ERRSTATE"], invalid=os.environ["VQ_ERRSTATE"])
    status = "ok"
    err = None
    try:
        bad = embed.selftest(np.random.default_rng(12345))
        if bad:
            raise RuntimeError("oracle self-test failed: " + "; ".join(bad))
        R = repo.Repo(getattr(mon, "STYLE", "flat"))
        all_cases = mon.cases(tier, seed)
        mine = all_cases[shard::nshards]
        if hasattr(mon, "setup"):
            mon.setup(ctx, R)
        try:
            for spec in mine:
                ctx.begin(spec)
                with repo.quiet():
                    mon.run_case(spec, ctx, R)
        finally:
            if hasattr(mon, "teardown"):
                mon.teardown(ctx, R)
    except Exception as e:  # harness failure = inconclusive, never a violation
        status = "error"
        err = "".join(traceback.format_exception(type(e), e, e.__traceback__))[-4000:]
    d = ctx.dump()
    d["status"] = status
    d["error"] = err
    d["ncases_total"] = len(all_cases) if status == "ok" else None
    with open(out, "w") as f:
        json.dump(d, f)
    return 0 if status == "ok" else 2


# --------------------------------------------------------------------------------------
# driver
# --------------------------------------------------------------------------------------

def _match_finding(v: dict, findings: list[dict], pid: str):
    for f in findings:
        if f.get("property") != pid or f.get("status") != "open":
            continue
        cl = f.get("clause", "*")
        if not any(fnmatch.fnmatchcase(v["clause"], c) for c in ([cl] if isinstance(cl, str) else cl)):
            continue
        if not fnmatch.fnmatchcase(v["site"], f.get("site", "*")):
            continue
        mech = f.get("mechanism")
        if mech and mech not in v["tags"]:
            continue
        if any(t in v["tags"] for t in f.get("unless_tags", [])):
            continue
        return f
    return None


def drive(pid: str, tier: str, seed: int, shards: int | None, keep: bool = False) -> int:
    _env_defaults()
    from . import core, repo

    t0 = time.time()
    mon = load_monitor(pid)
    n = shards or getattr(mon, "SHARDS", {}).get(tier, 8)
    n = max(1, min(n, os.cpu_count() or 1, 16))
    timeout = getattr(mon, "TIMEOUT", {}).get(tier, 900 if tier == "quick" else 3600)
    wd = core.workdir(pid)
    procs = []
    for i in range(n):
        out = os.path.join(wd, f"shard-{tier}-{seed}-{i}.json")
        if os.path.exists(out):
            os.remove(out)
        cmd = [sys.executable, "-m", "vq.cli", "_shard", pid, "--tier", tier, "--seed", str(seed),
               "--shard", str(i), "--nshards", str(n), "--out", out]
        if os.environ.get("VQ_COVER_DIR"):
            # development aid (tools/cover.sh): line coverage of the tree under test by this check's workload, to find anchored code that no
            # workload reaches; never set by the registered commands
            cmd = [sys.executable, "-m", "coverage", "run", "--parallel-mode", "--data-file", os.path.join(os.environ["VQ_COVER_DIR"], f".coverage.{pid}"),
                   "--source", os.path.join(os.environ.get("VQ_REPO", "/repo"), "quatica")] + cmd[1:]
        log = open(os.path.join(wd, f"shard-{tier}-{seed}-{i}.log"), "w")
        procs.append((subprocess.Popen(cmd, cwd=HERE, stdout=log, stderr=subprocess.STDOUT), out, log))
    dumps, problems = [], []
    deadline = time.time() + timeout
    for p, out, log in procs:
        try:
            p.wait(timeout=max(1.0, deadline - time.time()))
        except subprocess.TimeoutExpired:
            p.kill()
            p.wait()
            problems.append(f"shard timeout ({os.path.basename(out)})")
        log.close()
        if os.path.exists(out):
            try:
                with open(out) as f:
                    d = json.load(f)
                dumps.append(d)
                if d.get("status") != "ok":
                    problems.append("shard error: " + (d.get("error") or "?").strip().splitlines()[-1])
            except Exception as e:
                problems.append(f"unreadable shard output {out}: {e}")
        elif not any(os.path.basename(out) in s for s in problems):
            problems.append(f"shard produced no output ({os.path.basename(out)}, rc={p.returncode})")
    M = core.merge(dumps) if dumps else None

    kf = load_known_findings()
    findings = kf.get("findings", [])
    lines, new_viol, known_hits = [], [], {}
    wdir = os.path.join(OUT, "witness", pid)
    if M:
        seen = set()
        for v in M["violations"]:
            key = (v["clause"], v["site"], tuple(v["tags"]))
            if key in seen:
                continue
            seen.add(key)
            f = _match_finding(v, findings, pid)
            cnt = M["viol_counts"].get(key, 1)
            if f is not None:
                known_hits.setdefault(f["key"], {"finding": f, "count": 0, "example": v})
                known_hits[f["key"]]["count"] += cnt
            else:
                new_viol.append((v, cnt))
    # inconclusive conditions
    inconclusive = list(problems)
    if M:
        for cl in getattr(mon, "DECIDING", []):
            if M["clauses"].get(cl, {}).get("evaluated", 0) == 0:
                inconclusive.append(f"deciding clause never evaluated: {cl}")
        mr = getattr(mon, "MUST_REACH", [])
        if isinstance(mr, dict):
            mr = mr.get(tier, mr.get("*", []))
        for br in mr:
            if M["reach"].get(br, 0) == 0:
                if br.split(":")[0] in INTERNAL_BRANCH_PREFIXES:
                    # a branch inside the repository's code (sys.monitoring counter): a refactoring may legitimately bypass it, so
                    # zero hits are reported, not turned into "inconclusive"; the verdict rests on the black-box workload classes
                    M["notes"].append(f"internal branch {br} was not reached in this run")
                    continue
                if M["reach"].get("locator_missing:" + br, 0) > 0:
                    # the AST pattern no longer matches (refactored code): not a reason to withhold the verdict of the black-box clauses
                    M["notes"].append(f"must-reach branch {br}: locator missing, reach not measured")
                    continue
                inconclusive.append(f"must-reach branch never hit: {br}")
        if M["evaluations"] == 0:
            inconclusive.append("no case executed")
    else:
        inconclusive.append("no shard output")

    os.makedirs(wdir, exist_ok=True)
    for idx, (v, cnt) in enumerate(new_viol[:25]):
        wp = os.path.join(wdir, f"{tier}-{seed}-{idx:02d}-{v['clause']}.json".replace("/", "_"))
        with open(wp, "w") as f:
            json.dump({"property": pid, "tier": tier, "seed": seed, "count": cnt, "repo": repo.describe(), **v}, f, indent=1)
        lines.append(f"VIOLATION property={pid} replay={wp}")
        lines.append(f"  clause={v['clause']} site={v['site']} tags={','.join(v['tags'])} count={cnt} "
                     f"value={v['value']} bound={v['bound']}")
    for k, h in sorted(known_hits.items()):
        f = h["finding"]
        lines.append(f"KNOWN-FINDING: property={pid} {k} {f.get('what', '')} [observed {h['count']}x this run]")

    # evidence -----------------------------------------------------------------------
    wall = time.time() - t0
    ev = {
        "property_id": pid, "tier": tier, "seed": seed,
        "level": getattr(mon, "LEVEL", "exploration"),
        "coverage": {
            "evaluations": M["evaluations"] if M else 0,
            "distinct_nontrivial": len(M["case_digests"]) if M else 0,
            "rule": getattr(mon, "RULE", "") + " | Plus the standing workload rules of DESIGN.md section 7 (scales, exact-arithmetic coincidences, "
                    "size ladder across 8/16/32, memory layouts incl. negative strides, one-buffer call histories with the caller's own objects, "
                    "call forms with numpy scalars / keywords / omitted and falsy optional arguments, aliased arguments, retained results): the "
                    "per-class case counts are in 'classes', the reached workload markers in 'branch_reach'.",
            "samples": (M["samples"] if M and M["samples"] else ["(no sample recorded)"]),
            "exhaustive": bool(getattr(mon, "EXHAUSTIVE", False)),
            "exhaustive_note": getattr(mon, "EXHAUSTIVE_NOTE", ""),
            "monitor_evaluations": sum(c["evaluated"] for c in M["clauses"].values()) if M else 0,
            "clauses": M["clauses"] if M else {},
            "classes": dict(M["classes"]) if M else {},
            "call_sites": dict(M["sites"]) if M else {},
            "branch_reach": dict(M["reach"]) if M else {},
            "branch_states": {k: sorted(v)[:40] for k, v in M["reach_states"].items()} if M else {},
            "known_findings_observed": {k: h["count"] for k, h in known_hits.items()},
            "new_violation_kinds": len(new_viol),
            "inconclusive_reasons": inconclusive,
            "notes": (M["notes"][:30] if M else []),
            "shards": n,
            "repo": repo.describe(),
        },
        "assumptions": list(getattr(mon, "ASSUMPTIONS", [])),
        "wall_s": round(wall, 2),
        "violations": int(sum(c for _, c in new_viol)),
    }
    os.makedirs(os.path.join(OUT, "evidence"), exist_ok=True)
    with open(os.path.join(OUT, "evidence", f"{pid}.json"), "w") as f:
        json.dump(ev, f, indent=1, sort_keys=False)
        f.write("\n")

    for ln in lines:
        print(ln)
    if M:
        tot = sum(c["evaluated"] for c in M["clauses"].values())
        print(f"{pid} tier={tier} seed={seed}: {M['evaluations']} cases, {tot} monitor evaluations, "
              f"{len(M['case_digests'])} distinct inputs, {len(new_viol)} new violation kinds, "
              f"{len(known_hits)} known findings observed, {wall:.1f}s")
    if new_viol:
        return 1
    if inconclusive:
        for r in inconclusive[:10]:
            print(f"INCONCLUSIVE property={pid} reason={r}")
        return 3
    return 0


def replay(pid: str, path: str) -> int:
    _env_defaults()
    from . import core, repo

    with open(path) as f:
        w = json.load(f)
    mon = load_monitor(pid)
    ctx = core.Ctx(pid, "replay", int(w.get("seed", 0)))
    R = repo.Repo(getattr(mon, "STYLE", "flat"))
    if hasattr(mon, "setup"):
        mon.setup(ctx, R)
    ctx.begin(w["case"])
    with repo.quiet():
        mon.run_case(w["case"], ctx, R)
    if hasattr(mon, "teardown"):
        mon.teardown(ctx, R)
    hit = [v for v in ctx.violations if v["clause"] == w["clause"] and v["site"] == w["site"]]
    for v in ctx.violations:
        print(f"replayed violation: clause={v['clause']} site={v['site']} tags={v['tags']} value={v['value']} bound={v['bound']}")
    if hit:
        print(f"VIOLATION property={pid} replay={path}")
        return 1
    print(f"{pid}: witness no longer violates clause {w['clause']} ({len(ctx.violations)} other violations)")
    return 0 if not ctx.violations else 1


def main(argv=None) -> int:
    ap = argparse.ArgumentParser(prog="check")
    ap.add_argument("cmd")
    ap.add_argument("pid", nargs="?")
    ap.add_argument("--tier", default=os.environ.get("VERIF_TIER", "quick"), choices=["quick", "thorough"])
    ap.add_argument("--seed", type=int, default=int(os.environ.get("VERIF_SEED", "0")))
    ap.add_argument("--shards", type=int, default=None)
    ap.add_argument("--shard", type=int, default=0)
    ap.add_argument("--nshards", type=int, default=1)
    ap.add_argument("--out", default=None)
    ap.add_argument("--replay", default=None)
    a = ap.parse_args(argv)
    if a.cmd == "_shard":
        return run_shard(a.pid, a.tier, a.seed, a.shard, a.nshards, a.out)
    if a.cmd == "selftest":
        _env_defaults()
        import numpy as np
        from .oracle import embed
        bad = embed.selftest(np.random.default_rng(1))
        print("oracle self-test:", "OK" if not bad else bad)
        return 0 if not bad else 2
    pid = a.cmd if a.cmd in PROPS else a.pid
    if pid not in PROPS:
        ap.error("unknown property id")
    if a.replay:
        return replay(pid, a.replay)
    return drive(pid, a.tier, a.seed, a.shards)


if __name__ == "__main__":
    sys.exit(main())
