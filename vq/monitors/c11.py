"""C11 Rank, null spaces and determinants (DESIGN.md section 7, C11)."""
from __future__ import annotations

import numpy as np

from .. import gen
from ..oracle import embed, refq

ID = "C11"
LEVEL = "exploration"
RULE = ("(a) rank / null spaces: m x n matrices (1..6 quick, 1..9 thorough) of every rank 0..min(m,n) built as U diag(s) V^H with "
        "non-zero singular values >= 1e-4*s_1 (simple, repeated, clustered), exact small-integer low-rank products, zero matrix, "
        "nullity >= 2 on both sides, layouts; rank() vs ground truth, vs the oracle count at the documented threshold (skipped when an "
        "oracle value lies within a factor 8 of it) and vs matrix_rank(real embedding)/4; rank(A^H); rank(PAQ) for exact integer "
        "unimodular P, Q (products exact in floating point) and for oracle-made P, Q with cond <= 10; the four null-space entry "
        "points on both sides: column count, ||A N|| (||N^H A||), independence (sigma_min(N) >= 1e-6 sigma_max(N)), aliases identical. "
        "(b) determinants: Dieudonne vs product of oracle singular values, multiplicativity on factor pairs, zero iff singular; Moore "
        "vs product of oracle eigenvalues on Hermitian definite / indefinite / singular matrices. distinct = input digest; "
        "non-trivial = min(m,n) >= 2 or rank >= 1")
ASSUMPTIONS = ["constant c = 1e3 in all relative bounds; LAPACK on the complex adjoint is the singular-value / eigenvalue oracle",
               "rank cases with an oracle singular value within a factor 8 of eps*max(m,n)*s_1 are skipped as ambiguous, never judged"]
SHARDS = {"quick": 8, "thorough": 16}
DECIDING = ["rank:ground_truth", "rank:oracle_threshold", "rank:explicit_tol", "rank:quarter_real_rank", "rank:herm_invariant", "rank:invertible_invariant",
            "null:column_count", "null:annihilated", "null:independent", "null:aliases_identical",
            "det:dieudonne_value", "det:multiplicative", "det:zero_iff_singular", "det:moore_value"]
MUST_REACH = ["rank:zero_matrix", "null:nullity>=2:right", "null:nullity>=2:left", "null:full_rank_empty", "det:singular"]

C = 1e3
EPS = refq.EPS


def cases(tier, seed):
    out = []
    maxd = 6 if tier == "quick" else 12
    rep = 5 if tier == "quick" else 20
    idx = 0
    for m in range(1, maxd + 1):
        for n in range(1, maxd + 1):
            for r in range(0, min(m, n) + 1):
                for k in range(rep):
                    out.append({"kind": "rank", "cls": f"rank:{'zero' if r == 0 else 'full' if r == min(m, n) else 'deficient'}",
                                "m": m, "n": n, "r": r, "idx": idx, "seed": seed})
                    idx += 1
    # extreme aspect ratios (m >= 4n and n >= 4m): an implementation may switch algorithm there
    extreme = [(4, 1), (9, 1), (8, 2), (11, 2), (12, 3), (13, 3)] + ([] if tier == "quick" else [(16, 4), (20, 4), (21, 5), (30, 2), (40, 3)])
    for (a, b) in extreme:
        for (m, n) in ((a, b), (b, a)):
            for r in range(0, min(m, n) + 1):
                for k in range(2 if tier == "quick" else 6):
                    out.append({"kind": "rank", "cls": f"rank:{'zero' if r == 0 else 'full' if r == min(m, n) else 'deficient'}",
                                "m": m, "n": n, "r": r, "idx": idx, "seed": seed, "extreme_aspect": True})
                    idx += 1
    # size ladder (sizes above 8 / 16 / 32, multiples of 16 and their neighbours)
    lad = [9, 15, 16, 17, 24, 32, 33] if tier == "quick" else list(range(9, 36)) + [47, 48, 49, 64, 65]
    for n_ in lad:
        for j in range(2 if tier == "quick" else 6):
            out.append({"kind": "det", "cls": "det", "idx": idx, "seed": seed, "maxd": maxd, "n": n_})
            idx += 1
            out.append({"kind": "moore", "cls": "moore", "idx": idx, "seed": seed, "maxd": maxd, "n": n_})
            idx += 1
    for n_ in (2, 4, 5, 6, 8):
        for sc_ in (2.0 ** 60, 2.0 ** -60, 2.0 ** 100, 2.0 ** -100):
            if abs(np.log2(sc_)) * n_ > 900:
                continue
            for j in range(1 if tier == "quick" else 4):
                out.append({"kind": "det", "cls": "det", "idx": idx, "seed": seed, "maxd": maxd, "n": n_, "scale": sc_})
                idx += 1
    for (m_, n_) in ([(17, 17), (20, 33), (33, 20), (16, 16), (26, 9)] if tier == "quick" else
                     [(a, b) for a in (9, 16, 17, 26, 33, 40, 64) for b in (9, 16, 17, 33, 48)]):
        for r in sorted({0, 1, min(m_, n_) // 2, min(m_, n_) - 1, min(m_, n_)}):
            out.append({"kind": "rank", "cls": f"rank:{'zero' if r == 0 else 'full' if r == min(m_, n_) else 'deficient'}",
                        "m": m_, "n": n_, "r": r, "idx": idx, "seed": seed})
            idx += 1
    for k in range(12 if tier == "quick" else 80):
        out.append({"kind": "history", "cls": "history", "idx": idx, "seed": seed})
        idx += 1
    for k in range(4 if tier == "quick" else 24):
        out.append({"kind": "kahan", "cls": "rank:kahan_type", "idx": idx, "seed": seed})
        idx += 1
    for k in range(24 if tier == "quick" else 200):
        out.append({"kind": "tinynull", "cls": "null:tiny_components", "idx": idx, "seed": seed})
        idx += 1
    for k in range(40 if tier == "quick" else 400):
        out.append({"kind": "laplacian", "cls": "rank:connection_laplacian", "idx": idx, "seed": seed})
        idx += 1
    for k in range(40 if tier == "quick" else 400):
        out.append({"kind": "intrank", "cls": "rank:integer_exact", "idx": idx, "seed": seed, "maxd": maxd})
        idx += 1
    for k in range(60 if tier == "quick" else 600):
        out.append({"kind": "det", "cls": "det", "idx": idx, "seed": seed, "maxd": maxd})
        idx += 1
    for k in range(40 if tier == "quick" else 400):
        out.append({"kind": "moore", "cls": "moore", "idx": idx, "seed": seed, "maxd": maxd})
        idx += 1
    # a pivot entry that is tiny against its column but is data, not round-off (sizes 3..9, all four spectrum kinds)
    for k in range(28 if tier == "quick" else 280):
        out.append({"kind": "moore", "cls": "moore", "idx": idx, "seed": seed, "maxd": maxd, "n": 3 + k % 7, "struct": "leading_tiny"})
        idx += 1
    return out


def run_case(spec, ctx, R):
    {"rank": _rank, "intrank": _intrank, "det": _det, "moore": _moore, "history": _history, "tinynull": _tinynull, "kahan": _kahan, "laplacian": _laplacian}[spec["kind"]](spec, ctx, R)


def _kahan(spec, ctx, R):
    """Numerically rank-deficient matrices WITHOUT any small entry in a triangular factor: Q T D with T unit upper bidiagonal, -c on the super-
    diagonal (c = 3, 4; n = 20 .. 40), Q unitary, D unit-quaternion diagonal.  Every |R_kk| of an unpivoted QR is 1, while
    sigma_min = O(c^-(n-1)) is far below the documented threshold eps max(m,n) sigma_1: rank = n - 1, nullity 1 on both sides."""
    rng = gen.rng_for(spec["seed"], "c11kahan", spec["idx"])
    n = int(rng.choice([20, 24, 30, 40])); c_ = float(rng.choice([3.0, 4.0]))
    T = np.eye(n) + np.diag(np.full(n - 1, -c_), 1)
    Tq = refq.qa(np.stack([T, np.zeros_like(T), np.zeros_like(T), np.zeros_like(T)], axis=-1))
    A = refq.matmul(refq.matmul(refq.rand_unitary(rng, n), Tq), refq.diagq(np.ones(n), n, n) * 1.0)
    D = refq.unit_quats(rng, n)
    A = A * D[None, :]
    if spec["idx"] % 2:
        A = refq.herm(A)
    s = embed.svals(A)
    thr = EPS * n * s[0]
    if not (s[-1] < thr / 8 and s[-2] > thr * 8):
        ctx.skip("rank:ground_truth", "Kahan-type matrix not clearly of numerical rank n-1 for these parameters")
        return
    ctx.distinct(A)
    ctx.hit("rank:kahan_type")
    judge_rank(ctx, R, A, n - 1, "kahan_bidiagonal", ["kahan_bidiagonal"])
    judge_null(ctx, R, A, n - 1, "kahan_bidiagonal", ["kahan_bidiagonal"])


def _tinynull(spec, ctx, R):
    """Rank-deficient matrices whose null vectors carry TINY components next to O(1) ones: one (or two) columns are a right multiple of another
    column plus delta times a third one, delta = 1e-6 .. 1e-11.  The tiny components are data: a basis that drops them is not annihilated.
    The transposed-conjugate input exercises the left null space in the same way."""
    rng = gen.rng_for(spec["seed"], "c11tiny", spec["idx"])
    n = int(rng.integers(3, 7)); m = n + int(rng.integers(0, 3))
    nd = 1 + int(spec["idx"] % 3 == 0 and n >= 5)
    A = refq.randq(rng, m, n)
    for t in range(nd):
        j, k, l = [(n - 1, 0, 1), (n - 2, 1, 2)][t]
        A[:, j] = A[:, k] * refq.randq(rng, 1, 1)[0, 0] + A[:, l] * float(rng.choice([1e-6, 4e-9, 1e-9, 1e-11]))
    if spec["idx"] % 2:
        A = refq.herm(A)
    ctx.distinct(A)
    ctx.hit("null:tiny_components")
    r = n - nd
    judge_rank(ctx, R, A, r, "tiny_null_components", ["tiny_null_components"])
    judge_null(ctx, R, A, r, "tiny_null_components", ["tiny_null_components"])


def _history(spec, ctx, R):
    """One buffer, many calls: the caller's own object, the same object updated in place, views that keep its address."""
    rng = gen.rng_for(spec["seed"], "c11hist", spec["idx"])
    m, n = [(4, 4), (5, 3), (3, 5), (6, 6), (2, 2), (6, 4)][spec["idx"] % 6]
    A = refq.randq(rng, m, n)
    ctx.distinct("history", A)
    for lab, X in gen.history_forms(A):
        r = min(X.shape)
        judge_rank(ctx, R, X, r, "history:" + lab, ["history"])
        judge_null(ctx, R, X, r, "history:" + lab, ["history"])
    ctx.hit("history:one_buffer_many_calls")


def _threshold_ambiguous(s, m, n):
    if not len(s) or s[0] == 0:
        return False
    thr = EPS * max(m, n) * s[0]
    return bool(np.any((s > thr / 8) & (s < thr * 8)))


def judge_rank(ctx, R, A, r_true, site, tags):
    U = R.utils
    m, n = A.shape
    s = embed.svals(A)
    amb = _threshold_ambiguous(s, m, n)
    try:
        rk = U.rank(A)
    except Exception as e:
        ctx.check("unexpected_exception", False, site=site + ":rank", tags=tags, detail={"exception": repr(e), "shape": [m, n]})
        return None
    ok_type = isinstance(rk, (int, np.integer)) and 0 <= rk <= min(m, n)
    ctx.check("rank:range", ok_type, site=site, tags=tags, detail={"rank": rk})
    if amb:
        for cl in ("rank:ground_truth", "rank:oracle_threshold", "rank:quarter_real_rank", "rank:herm_invariant"):
            ctx.skip(cl, "oracle singular value within a factor 8 of the documented threshold")
        return rk
    thr = EPS * max(m, n) * (s[0] if len(s) else 0.0)
    ctx.check("rank:ground_truth", rk == r_true, site=site, tags=tags, detail={"rank": rk, "truth": r_true, "svals": s})
    ctx.check("rank:oracle_threshold", rk == int(np.sum(s > thr)), site=site, tags=tags, detail={"rank": rk, "svals": s, "thr": thr})
    rr = np.linalg.matrix_rank(embed.real_interleaved(A))
    ctx.check("rank:quarter_real_rank", 4 * rk == rr, site=site, tags=tags, detail={"rank": rk, "real_rank": int(rr)})
    try:
        rh = U.rank(refq.herm(A))
    except Exception as e:
        rh = repr(e)
    ctx.check("rank:herm_invariant", rh == rk, site=site, tags=tags, detail={"rank": rk, "rank_H": rh})
    # explicit tolerance (absolute, as documented: "singular values above the tolerance"): placed at the geometric mean of two well-separated
    # oracle singular values, above the largest, and far below the smallest non-zero one; keyword, positional and numpy-scalar forms
    sp = [float(v) for v in s if v > thr * 64]
    cuts = []
    for i in range(len(sp) - 1):
        if sp[i] > 4.0 * sp[i + 1]:
            cuts.append((float(np.sqrt(sp[i] * sp[i + 1])), i + 1, "between"))
    if sp:
        cuts.append((2.0 * sp[0], 0, "above_largest"))
        if len(sp) == len(s) or (len(s) > len(sp) and s[len(sp)] < sp[-1] * 1e-6):
            cuts.append((sp[-1] * 1e-3, len(sp), "below_smallest_nonzero"))
    for ci, (t, expect, lab) in enumerate(cuts[:4]):
        form = ["keyword", "positional", "np.float64", "np.float32"][(ci + len(sp)) % 4]
        try:
            if form == "keyword":
                rt = U.rank(A, tol=t)
            elif form == "positional":
                rt = U.rank(A, t)
            elif form == "np.float64":
                rt = U.rank(A, tol=np.float64(t))
            else:
                t = float(np.float32(t))
                rt = U.rank(A, tol=np.float32(t))
        except Exception as e:
            ctx.check("unexpected_exception", False, site=site + ":rank(tol)", tags=tags, detail={"exception": repr(e), "tol": t})
            continue
        ctx.hit("callform:rank_tol_" + form)
        ctx.hit("rank_tol:" + lab)
        ctx.check("rank:explicit_tol", rt == int(np.sum(s > t)) and rt == expect, site=site + ":" + lab, tags=tags,
                  detail={"rank": rt, "tol": t, "svals": s, "expected": expect})
    return rk


def judge_null(ctx, R, A, r_true, site, tags):
    U = R.utils
    m, n = A.shape
    nrm = refq.fro(A)
    for side, dim in (("right", n), ("left", m)):
        st = f"{site}:{side}"
        try:
            N = U.quat_null_space(A, side=side)
            N2 = U.quat_kernel(A, side=side)
            N3 = (U.quat_null_right if side == "right" else U.quat_null_left)(A)
        except Exception as e:
            ctx.check("unexpected_exception", False, site=st, tags=tags, detail={"exception": repr(e), "shape": [m, n]})
            continue
        k = dim - r_true
        if k >= 2:
            ctx.hit(f"null:nullity>=2:{side}")
        if k == 0:
            ctx.hit("null:full_rank_empty")
        ok = getattr(N, "ndim", 0) == 2 and N.shape == (dim, k)
        ctx.check("null:column_count", ok, site=st, tags=tags, detail={"shape": getattr(N, "shape", None), "expected": [dim, k]})
        same = (N2.shape == N.shape and N3.shape == N.shape and np.array_equal(refq.fa(N2), refq.fa(N))
                and np.array_equal(refq.fa(N3), refq.fa(N)))
        ctx.check("null:aliases_identical", same, site=st, tags=tags)
        if not ok or k == 0:
            continue
        prod = refq.matmul(A, N) if side == "right" else refq.matmul(refq.herm(N), A)
        ctx.check("null:annihilated", refq.fro(prod), C * max(m, n) * EPS * max(nrm, 1e-300) * max(refq.fro(N), 1.0) + 1e-300, site=st,
                  tags=tags, detail={"shape": [m, n], "k": k})
        sv = embed.svals(N)
        ctx.check("null:independent", bool(len(sv) == k and sv[-1] >= 1e-6 * sv[0] and sv[0] > 0), site=st, tags=tags,
                  detail={"svals_of_basis": sv})
        ctx.check("null:unit_columns", float(np.max(np.abs(np.sqrt((refq.absq(N) ** 2).sum(axis=0)) - 1.0))), C * max(m, n) * EPS,
                  site=st, tags=tags)
    # explicit rtol (documented: singular values <= rtol * s_max count as zero), for BOTH sides and all four entry points, keyword and positional:
    # the threshold is placed inside a gap of the oracle spectrum, so the expected column count is known and the basis must be annihilated to the
    # size of the singular values that were dropped
    s_all = embed.svals(A)
    if len(s_all) and s_all[0] > 0:
        full = np.concatenate([s_all, np.zeros(min(m, n) - len(s_all))]) if len(s_all) < min(m, n) else s_all
        cuts = []
        for i in range(len(full) - 1):
            if full[i] > 0 and full[i] > 16.0 * max(full[i + 1], 1e-13 * full[0]) and full[i] / full[0] > 1e-9:
                hi_, lo_ = full[i] / full[0], max(full[i + 1] / full[0], 1e-13)
                cuts.append((float(np.sqrt(hi_ * lo_)), i + 1))
        for ci, (rt, keep) in enumerate(cuts[:3]):
            dropped = float(np.sqrt(np.sum(full[keep:] ** 2)))
            for side, dim in (("right", n), ("left", m)):
                st = f"{site}:{side}:explicit_rtol"
                try:
                    forms = {"null_space:kw": U.quat_null_space(A, side=side, rtol=rt), "null_space:pos": U.quat_null_space(A, side, rt),
                             "kernel:kw": U.quat_kernel(A, side=side, rtol=rt),
                             "null_side:pos": (U.quat_null_right if side == "right" else U.quat_null_left)(A, rt),
                             "null_side:kw": (U.quat_null_right if side == "right" else U.quat_null_left)(A, rtol=np.float64(rt))}
                except Exception as e:
                    ctx.check("unexpected_exception", False, site=st, tags=tags, detail={"exception": repr(e), "shape": [m, n], "rtol": rt})
                    continue
                ctx.hit("callform:null_rtol_explicit")
                k = dim - keep
                for fname, Nf in forms.items():
                    okf = getattr(Nf, "ndim", 0) == 2 and Nf.shape == (dim, k)
                    ctx.check("null:column_count", okf, site=st + ":" + fname, tags=tags,
                              detail={"shape": getattr(Nf, "shape", None), "expected": [dim, k], "rtol": rt, "svals": full})
                    if not okf or k == 0:
                        continue
                    prod = refq.matmul(A, Nf) if side == "right" else refq.matmul(refq.herm(Nf), A)
                    ctx.check("null:annihilated", refq.fro(prod), dropped * (1 + 1e-6) + C * max(m, n) * EPS * max(nrm, 1e-300) * max(refq.fro(Nf), 1.0) + 1e-300,
                              site=st + ":" + fname, tags=tags, detail={"shape": [m, n], "k": k, "rtol": rt, "dropped": dropped})
                    svf = embed.svals(Nf)
                    ctx.check("null:independent", bool(len(svf) == k and svf[-1] >= 1e-6 * svf[0] and svf[0] > 0), site=st + ":" + fname, tags=tags)


def _rank(spec, ctx, R):
    m, n, r = spec["m"], spec["n"], spec["r"]
    rng = gen.rng_for(spec["seed"], "c11rank", spec["idx"])
    N = min(m, n)
    kind = ["simple", "geometric", "equal", "cluster", "repeat2"][spec["idx"] % 5]
    s_nz = gen.spectrum(kind, r, rng, 1e3 if kind == "geometric" else 10.0) if r else np.zeros(0)
    s = np.concatenate([s_nz, np.zeros(N - r)])
    A, _, _ = refq.with_singular_values(rng, m, n, s)
    if spec["idx"] % 7 == 3:
        A = gen.layout(A, gen.LAYOUTS[spec["idx"] % len(gen.LAYOUTS)])
    if spec["idx"] % 4 == 1:
        # uniform scaling (multiplication by the invertible c*I) incl. extreme magnitudes: rank and null spaces do not depend on it
        A = A * float(rng.choice([1e-15, 1e-12, 1e-6, 1e6, 1e12]))
    if r == 0:
        A = refq.zeros(m, n)
        ctx.hit("rank:zero_matrix")
    tags = [kind] + (["zero"] if r == 0 else [])
    ctx.distinct(A, nontrivial=(N >= 2 or r >= 1))
    rk = judge_rank(ctx, R, A, r, "prescribed", tags)
    judge_null(ctx, R, A, r, "prescribed", tags)
    # invariance under invertible factors with cond <= 10
    if r >= 0 and spec["idx"] % 2 == 0:
        P, _, _ = refq.with_singular_values(rng, m, m, np.linspace(10.0, 1.0, m) if m > 1 else np.array([2.0]))
        Q, _, _ = refq.with_singular_values(rng, n, n, np.linspace(10.0, 1.0, n) if n > 1 else np.array([3.0]))
        B = refq.matmul(refq.matmul(P, A), Q)
        sB = embed.svals(B)
        if _threshold_ambiguous(sB, m, n) or _threshold_ambiguous(embed.svals(A), m, n):
            ctx.skip("rank:invertible_invariant", "ambiguous after multiplication")
        else:
            try:
                rb = R.utils.rank(B)
            except Exception as e:
                rb = repr(e)
            ctx.check("rank:invertible_invariant", rb == rk, site="prescribed:PAQ", tags=tags, detail={"rank": rk, "rank_PAQ": rb, "svals": sB})
    if spec["idx"] % 53 == 0:
        ctx.sample({"shape": [m, n], "rank": r, "spectrum": s, "A": A})


def _laplacian(spec, ctx, R):
    """Quaternion connection Laplacians L = D - W of forests: edge {a,b} carries a weight w_ab * u_ab (w > 0, u a unit quaternion; W_ba is the
    conjugate), D_aa = sum of the incident w.  Every tree component is balanced, so an UNGROUNDED component contributes exactly one null vector;
    grounding (an extra positive amount on one diagonal entry) makes the component definite.  The matrices are Hermitian, weakly diagonally
    dominant with exact ties in the ungrounded rows, reducible (several components, node labels interleaved) - singular by STRUCTURE, with all
    diagonal entries non-zero: rank = n - #ungrounded components is generator truth."""
    rng = gen.rng_for(spec["seed"], "c11lap", spec["idx"])
    n = int(rng.integers(3, 11))
    ncomp = int(rng.integers(1 if spec["idx"] % 5 == 0 else 2, min(4, n // 2) + 1)) if n >= 4 else 1
    perm = rng.permutation(n) if spec["idx"] % 4 == 3 else np.arange(n)      # mostly CONTIGUOUS labelling: a block-diagonal matrix with several singular blocks
    cuts = sorted(rng.choice(np.arange(1, n), size=ncomp - 1, replace=False).tolist()) if ncomp > 1 else []
    groups = [g for g in np.split(perm, cuts) if len(g)]
    units = [np.array(v, dtype=float) for v in ([1, 0, 0, 0], [-1, 0, 0, 0], [0, 1, 0, 0], [0, -1, 0, 0], [0, 0, 1, 0], [0, 0, -1, 0], [0, 0, 0, 1], [0, 0, 0, -1])]
    hurwitz = spec["idx"] % 3 != 2
    c = np.zeros((n, n, 4))
    ungrounded = 0
    for gi, g in enumerate(groups):
        shape = ["path", "star", "random_tree"][int(rng.integers(0, 3))]
        for t in range(1, len(g)):
            a = int(g[t]); b = int(g[t - 1] if shape == "path" else g[0] if shape == "star" else g[int(rng.integers(0, t))])
            w = float(rng.choice([1.0, 1.0, 2.0, 3.0, 0.5]))
            if hurwitz:
                u = units[int(rng.integers(0, 8))]
            else:
                u = rng.standard_normal(4); u /= np.linalg.norm(u)
            c[a, b] = -w * u
            c[b, a] = -w * u * np.array([1.0, -1.0, -1.0, -1.0])
            c[a, a, 0] += w; c[b, b, 0] += w
        ground = (len(g) == 1) or (rng.random() < 0.3) or (gi == 0 and len(groups) > 2 and spec["idx"] % 2 == 0)
        if ground:
            node = int(g[int(rng.integers(0, len(g)))])
            c[node, node, 0] += float(rng.choice([1.0, 2.0, 0.5]))
        else:
            ungrounded += 1
    A = refq.qa(c)
    r = n - ungrounded
    sv = embed.svals(A)
    if _threshold_ambiguous(sv, n, n) or int(np.sum(sv > 1e-9 * max(sv.max(), 1e-300))) != r:
        ctx.skip("rank:equals_true_rank", "laplacian: oracle spectrum ambiguous")
        return
    tags = ["structured:connection_laplacian", "hurwitz" if hurwitz else "random_units"]
    ctx.distinct(A, nontrivial=True)
    ctx.hit("rank:structurally_singular_diagonally_dominant" if ungrounded else "rank:reducible_weakly_dominant_nonsingular")
    judge_rank(ctx, R, A, r, "laplacian", tags)
    judge_null(ctx, R, A, r, "laplacian", tags)
    AH = refq.herm(A)
    judge_rank(ctx, R, AH, r, "laplacian:conjugate_transpose", tags)
    # a non-Hermitian relative with the same row structure: rows scaled by unit quaternions from the left (rank unchanged, still weakly dominant)
    dq = np.zeros((n, n, 4))
    for i_ in range(n):
        dq[i_, i_] = units[int(rng.integers(0, 8))]
    judge_rank(ctx, R, refq.matmul(refq.qa(dq), A), r, "laplacian:unit_row_scaling", tags)


def _unimodular(rng, n):
    """Integer matrix with determinant +-1 (product of elementary integer row operations with quaternion-unit entries)."""
    c = np.zeros((n, n, 4))
    c[np.arange(n), np.arange(n), 0] = 1.0
    M = refq.qa(c)
    for _ in range(2 * n):
        i, j = (int(x) for x in rng.integers(0, n, size=2))
        if i == j:
            continue
        q = np.zeros(4)
        q[int(rng.integers(0, 4))] = float(rng.choice([-1.0, 1.0]))
        E = refq.eye(n)
        E[i, j] = np.quaternion(*q)
        M = refq.matmul(E, M)
    return M


def _intrank(spec, ctx, R):
    rng = gen.rng_for(spec["seed"], "c11int", spec["idx"])
    m, n = (int(x) for x in rng.integers(1, spec["maxd"] + 1, size=2))
    r = int(rng.integers(0, min(m, n) + 1))
    if r:
        L = gen.entries(rng, "int", m, r)
        Rt = gen.entries(rng, "int", r, n)
        A = refq.matmul(L, Rt)
    else:
        A = refq.zeros(m, n)
    r_true = embed.rank(A, rtol=1e-9)       # exact integer product: the true rank is min(rank L, rank R) <= r
    tags = ["integer_exact"]
    ctx.distinct(A, nontrivial=r_true >= 1)
    rk = judge_rank(ctx, R, A, r_true, "integer", tags)
    judge_null(ctx, R, A, r_true, "integer", tags)
    if rk is None:
        return
    P, Q = _unimodular(rng, m), _unimodular(rng, n)
    B = refq.matmul(refq.matmul(P, A), Q)       # exact in floating point (small integers)
    sA, sB = embed.svals(A), embed.svals(B)
    if _threshold_ambiguous(sA, m, n) or _threshold_ambiguous(sB, m, n) or embed.cond(P) > 1e6 or embed.cond(Q) > 1e6:
        ctx.skip("rank:invertible_invariant", "ambiguous")
        return
    try:
        rb = R.utils.rank(B)
    except Exception as e:
        rb = repr(e)
    ctx.check("rank:invertible_invariant", rb == rk, site="integer:PAQ", tags=tags, detail={"rank": rk, "rank_PAQ": rb, "svals": sB})


def _det(spec, ctx, R):
    U = R.utils
    rng = gen.rng_for(spec["seed"], "c11det", spec["idx"])
    n = int(rng.integers(1, spec["maxd"] + 1))
    if "n" in spec:
        n = spec["n"]
        ctx.hit("size:ladder")
    k = spec["idx"] % 6
    name = ["Dieudonné", "Dieudonne"][spec["idx"] % 2]
    if k in (0, 1, 2):
        kap = [1.0, 10.0, 1e3][k]
        sA = gen.spectrum("geometric", n, rng, kap) * float(rng.choice([0.5, 1.0, 2.0])) if kap > 1 else np.full(n, 1.5)
        A, _, _ = refq.with_singular_values(rng, n, n, sA)
        singular = False
    elif k == 3:
        r = int(rng.integers(0, n))
        sA = np.concatenate([gen.spectrum("simple", r, rng, 5.0), np.zeros(n - r)])
        A, _, _ = refq.with_singular_values(rng, n, n, sA)
        singular = True
        ctx.hit("det:singular")
    elif k == 4:
        A = gen.entries(rng, "int", n, n)
        sA = embed.svals(A)
        singular = bool(sA[-1] <= 1e-9 * max(sA[0], 1e-300))
        if singular:
            ctx.hit("det:singular")
    else:
        A = refq.rand_unitary(rng, n) * float(rng.choice([0.5, 1.0, 3.0]))
        sA = embed.svals(A)
        singular = False
    if spec.get("scale"):
        # exact power-of-two scaling: the determinant itself stays representable (|det| ~ 2^(60 n)), its powers and squares need not
        A = A * spec["scale"]
        ctx.hit("det:scaled_pow2")
    ctx.distinct(A, nontrivial=n >= 2)
    s_or = embed.svals(A)
    s1 = max(float(s_or[0]), 1e-300)
    try:
        d = U.det(A, name)
    except Exception as e:
        ctx.check("unexpected_exception", False, site="det:" + name, detail={"exception": repr(e), "n": n})
        return
    ok = np.isrealobj(d) or abs(np.imag(d)) == 0
    ctx.check("det:real_nonneg", bool(ok and np.real(d) >= 0 and np.isfinite(np.real(d))), site="det:" + name, detail={"det": d})
    d = float(np.real(d))
    ref = float(np.prod(s_or))
    kap = s1 / max(float(s_or[-1]), 1e-300)
    if singular:
        ctx.check("det:zero_iff_singular", abs(d), C * n * EPS * s1 ** n + 1e-300, site="det:singular", detail={"det": d, "svals": s_or})
    else:
        ctx.check("det:dieudonne_value", abs(d - ref), C * n * EPS * min(kap, 1e16) * ref + 1e-300, site="det:" + name,
                  detail={"det": d, "oracle": ref, "n": n})
        ctx.check("det:zero_iff_singular", bool(d > 0.5 * ref), site="det:nonsingular", detail={"det": d, "oracle": ref})
        # multiplicativity on a factor pair
        B, _, _ = refq.with_singular_values(rng, n, n, gen.spectrum("geometric", n, rng, 10.0))
        AB = refq.matmul(A, B)
        try:
            dB, dAB = float(np.real(U.det(B, name))), float(np.real(U.det(AB, name)))
        except Exception as e:
            ctx.check("unexpected_exception", False, site="det:product", detail={"exception": repr(e)})
            return
        ctx.check("det:multiplicative", abs(dAB - d * dB), C * n * EPS * min(kap * 10.0, 1e16) * abs(d * dB) + 1e-300, site="det:product",
                  detail={"detA": d, "detB": dB, "detAB": dAB})
    if spec["idx"] % 19 == 0:
        ctx.sample({"kind": "det", "n": n, "svals": s_or, "det": d})


def _moore(spec, ctx, R):
    U = R.utils
    rng = gen.rng_for(spec["seed"], "c11moore", spec["idx"])
    n = int(rng.integers(1, spec["maxd"] + 1))
    n = spec.get("n", n)
    k = spec["idx"] % 4
    if k == 0:
        e = 0.5 + rng.random(n) * 3.0
    elif k == 1:
        e = (0.5 + rng.random(n) * 3.0) * rng.choice([-1.0, 1.0], size=n)
    elif k == 2:
        e = (0.5 + rng.random(n) * 3.0) * rng.choice([-1.0, 1.0], size=n)
        e[int(rng.integers(0, n))] = 0.0
        ctx.hit("det:singular")
    else:
        e = np.full(n, float(rng.choice([-2.0, 0.5, 2.0])))
        if n >= 2:
            e[0] = -e[0]
    A, _ = refq.hermitian_with_eigs(rng, e)
    tagk = ["definite", "indefinite", "singular", "repeated"][k]
    struct = ["dense", "dense", "zero_subdiagonal_entry", "arrow", "sparse", "block_diagonal", "tridiagonal", "real_symmetric",
              "hollow", "dilation", "leading_entry_zero", "leading_block_rank_one", "leading_tiny"][(spec["idx"] // 4) % 13]
    struct = spec.get("struct", struct)
    if struct == "leading_tiny" and n >= 3:
        # the entry that carries the first reflector's phase is tiny (1e-7 .. 1e-10 of its column) but not zero: data, not round-off
        c = refq.fa(A).copy()
        t_ = float(rng.choice([1e-7, 1e-9, 1e-10]))
        c[1, 0] = c[1, 0] / max(float(np.linalg.norm(c[1, 0])), 1e-300) * t_
        c[0, 1] = c[1, 0] * np.array([1.0, -1.0, -1.0, -1.0])
        A = refq.symmetrize(refq.qa(c))
        tagk = "structured:leading_tiny"
        ctx.hit("moore:structured_hermitian")
    elif struct in ("hollow", "dilation", "leading_entry_zero", "leading_block_rank_one") and n >= 2:
        # NONSINGULAR Hermitian matrices with a vanishing leading principal minor (zero diagonal, the Hermitian dilation [[0,B],[B^H,0]], a zero
        # leading entry, a leading 2x2 block of rank one): the determinant is far from zero although an elimination without pivoting breaks down
        B_ = refq.randq(rng, n, n)
        c = refq.fa(refq.symmetrize(B_ + refq.herm(B_))).copy()
        if struct == "hollow":
            c[np.arange(n), np.arange(n)] = 0.0
        elif struct == "dilation":
            h = n // 2
            c[:h, :h] = 0.0; c[h:, h:] = 0.0
            if n % 2:
                c[n - 1, n - 1, 0] = 1.5
        elif struct == "leading_entry_zero":
            c[0, 0] = 0.0
        else:
            q_ = c[0, 1] / max(float(np.linalg.norm(c[0, 1])), 1e-300)
            c[0, 0] = [2.0, 0, 0, 0]; c[1, 1] = [0.5, 0, 0, 0]; c[0, 1] = q_; c[1, 0] = q_ * np.array([1.0, -1.0, -1.0, -1.0])     # 2 * 0.5 - |q|^2 = 0
        A = refq.symmetrize(refq.qa(c))
        tagk = "structured:" + struct
        ctx.hit("moore:vanishing_leading_minor")
    elif struct != "dense" and n >= 3:
        # structured Hermitian inputs (exact zeros at particular positions): the reduction takes other branches there
        c = refq.fa(A).copy()
        if struct == "zero_subdiagonal_entry":
            j = int(rng.integers(0, n - 2))
            c[j + 1, j] = 0.0; c[j, j + 1] = 0.0
        elif struct == "arrow":
            keep = np.eye(n, dtype=bool); keep[0, :] = True; keep[:, 0] = True
            c[~keep] = 0.0
            c[1, 0] = 0.0; c[0, 1] = 0.0                    # the hub is not linked to node 1
        elif struct == "sparse":
            msk = np.triu(rng.random((n, n)) < 0.35, 1); msk = msk | msk.T | np.eye(n, dtype=bool)
            c[~msk] = 0.0
        elif struct == "block_diagonal":
            h = n // 2
            c[:h, h:] = 0.0; c[h:, :h] = 0.0
        elif struct == "tridiagonal":
            c[np.abs(np.subtract.outer(np.arange(n), np.arange(n))) > 1] = 0.0
        elif struct == "real_symmetric":
            c[..., 1:] = 0.0
        A = refq.qa(c)
        tagk = "structured:" + struct
        ctx.hit("moore:structured_hermitian")
    ctx.distinct(A, nontrivial=n >= 2)
    lam = embed.eigvalsh(A)
    ref = float(np.prod(lam))
    amax = max(float(np.max(np.abs(lam))), 1e-300)
    amin = float(np.min(np.abs(lam)))
    try:
        d = U.det(A, "Moore")
    except Exception as e2:
        ctx.check("unexpected_exception", False, site="det:Moore", detail={"exception": repr(e2), "n": n})
        return
    d = complex(d)
    bound = C * n * n * EPS * amax ** n + 1e-300 if amin <= 1e-9 * amax else C * n * n * EPS * (amax / amin) * abs(ref) + 1e-300
    ctx.check("det:moore_value", abs(d - ref), bound, site="det:Moore", tags=[tagk],
              detail={"det": [d.real, d.imag], "oracle": ref, "eigs": lam})
