"""C12 Randomized Q-SVDs (DESIGN.md section 7, C12)."""
from __future__ import annotations

import numpy as np

from .. import gen, reach
from ..oracle import embed, refq

ID = "C12"
LEVEL = "exploration"
RULE = ("rand_qsvd (oversample 0..10, n_iter 0..3) and pass_eff_qsvd (oversample 0..10, n_passes 2..5) on m x n matrices (2..10 quick, "
        "2..24 thorough; tall, wide, square) with prescribed singular values: every regime of R+oversample vs min(m,n) (<, =, >, "
        "> max(m,n)), rank classes (full, = R, < R, between R and R+oversample), flat / decaying (kappa up to 1e6) / clustered spectra; "
        "np.random.seed(s) before each call for several seeds per configuration ('schedules'). Per draw: shapes, orthonormal U and V, "
        "s non-negative non-increasing with s_i <= sigma_i(A), Eckart-Young optimum <= error <= ||A||_F, exact when rank(A) <= R. "
        "Every inner qr_qua call is observed through an interposed wrapper (input shape, oracle rank and condition number of its "
        "leading block) so that a failure can be attributed to the open qr_qua findings (F-C06-b/c/d) by mechanism. "
        "distinct = (input digest, routine, parameters, seed); non-trivial = min(m,n) >= 2")
ASSUMPTIONS = ["the branch rand:wide_sketch_Q1 (X*Q2 wider than tall) is watched but not required: Q1 never has more than m columns, so X*Q2 is "
               "never wide (dead code on every input)",
               "c = 1e3 in backward-error bounds; oracle singular values from LAPACK on the complex adjoint",
               "mechanism attribution: a run is tagged inner_qr_rank_deficient / inner_qr_ill_conditioned only from the oracle's analysis "
               "of the matrices the routine itself handed to qr_qua"]
SHARDS = {"quick": 8, "thorough": 16}
DECIDING = ["shapes", "U_orthonormal", "V_orthonormal", "s_sorted_nonneg", "s_interlacing", "error_ge_optimum", "error_le_normA",
            "exact_on_low_rank", "seed_reproducible"]
# (the clauses are also judged on a call that follows an in-place update of the same array object: site "<routine>:after_inplace_update")
MUST_REACH = ["history:inplace_update_then_call", "rand:wide_sketch_Q2", "rand:wide_sketch_final", "pass:odd", "pass:even",
              "regime:R+P<min", "regime:R+P>min", "regime:R+P>max", "rankclass:full", "rankclass:eqR", "rankclass:ltR"]

C = 1e3
EPS = refq.EPS

_REACH = None
_QR_LOG = []
_ORIG_QR = None


def setup(ctx, R):
    global _REACH, _ORIG_QR
    Q = R.qsvd
    _REACH = reach.Reach(ctx)
    _REACH.watch(reach.Locator(Q.rand_qsvd, "rand:wide_sketch_Q2", "Q2_temp.shape[0] >= Q2_temp.shape[1]", which="orelse"), index=0)
    _REACH.watch(reach.Locator(Q.rand_qsvd, "rand:wide_sketch_Q1", "Q1_temp.shape[0] >= Q1_temp.shape[1]", which="orelse"))
    _REACH.watch(reach.Locator(Q.rand_qsvd, "rand:wide_sketch_final", "Q2_temp.shape[0] >= Q2_temp.shape[1]", which="orelse"), index=-1)
    _REACH.watch(reach.Locator(Q.pass_eff_qsvd, "pass:odd", "i % 2 == 1"))
    _REACH.watch(reach.Locator(Q.pass_eff_qsvd, "pass:even", "i % 2 == 1", which="orelse"))
    _REACH.start()
    _ORIG_QR = Q.qr_qua

    def qr_wrapper(X):
        out = _ORIG_QR(X)
        try:
            m, n = X.shape
            s = embed.svals(X[:, :min(m, n)])
            kap = float(s[0] / s[-1]) if len(s) and s[-1] > 0 else float("inf")
            sf = embed.svals(X)
            rk = int(np.sum(sf > 1e-10 * sf[0])) if len(sf) and sf[0] > 0 else 0
            _QR_LOG.append({"shape": (m, n), "kappa_leading": kap, "rank": rk, "deficient": rk < min(m, n),
                            "orth_err": refq.orth_err(out[0])})
        except Exception:
            _QR_LOG.append({"shape": getattr(X, "shape", None), "kappa_leading": float("nan"), "rank": -1, "deficient": False,
                            "orth_err": float("nan")})
        return out
    Q.qr_qua = qr_wrapper


def teardown(ctx, R):
    if _REACH:
        _REACH.stop()
    if _ORIG_QR is not None:
        R.qsvd.qr_qua = _ORIG_QR


def cases(tier, seed):
    out = []
    maxd = 10 if tier == "quick" else 24
    nconf = 200 if tier == "quick" else 1500
    nseeds = 3 if tier == "quick" else 10
    idx = 0
    for routine in ("rand_qsvd", "pass_eff_qsvd"):
        for k in range(nconf):
            out.append({"kind": "run", "cls": routine, "routine": routine, "idx": idx, "seed": seed, "maxd": maxd, "nseeds": nseeds})
            idx += 1
    # canonical witnesses of the open findings (fixed seeds and parameters, independent of VERIF_SEED)
    for routine in ("rand_qsvd", "pass_eff_qsvd"):
        for name, fx in (("repeated", {"m": 6, "n": 6, "R": 3, "P": 2, "r": 6, "kind": "equal"}),
                         ("clustered", {"m": 7, "n": 6, "R": 3, "P": 1, "r": 6, "kind": "cluster"}),
                         ("sketch_rank_deficient", {"m": 7, "n": 6, "R": 3, "P": 2, "r": 2, "kind": "simple"}),
                         ("sketch_ill_conditioned", {"m": 9, "n": 8, "R": 6, "P": 2, "r": 8, "kind": "geometric_hard", "n_iter": 0, "n_passes": 2})):
            for d in range(4):
                out.append({"kind": "run", "cls": "canonical:" + name, "routine": routine, "idx": 10 ** 6 + d, "seed": 0, "maxd": maxd,
                            "nseeds": 3, "fixed": fx})
    # size ladder: dimensions beyond plausible panel heights / thresholds (16, 32, 64 rows; target rank above 8; oversampling 10),
    # exact-rank (r = R: the reconstruction must be exact) and generic spectra, even and odd pass counts
    ladder = [(40, 24, 9, 5, 9, "simple"), (50, 30, 10, 0, 10, "simple"), (70, 26, 12, 10, 12, "geometric"), (33, 9, 4, 2, 4, "simple"),
              (9, 33, 4, 2, 9, "simple"), (34, 34, 10, 5, 34, "geometric"), (65, 12, 6, 3, 6, "simple"), (12, 65, 6, 3, 12, "geometric"),
              (36, 20, 12, 10, 20, "simple"), (300, 6, 3, 2, 3, "simple"), (5, 270, 2, 4, 2, "simple"), (257, 4, 2, 0, 2, "simple"), (130, 129, 3, 0, 3, "simple")]
    if tier != "quick":
        ladder += [(a, b, R_, P_, R_, "simple") for (a, b) in ((48, 47), (64, 20), (20, 64), (97, 10), (33, 33), (130, 6)) for (R_, P_) in ((3, 0), (5, 10))]
    # exact power-of-two scalings (norm of A far below eps / far above 1/eps), exact-rank without oversampling (the sketch handed to the
    # inner QR has full rank, so no finding tag applies) and full-rank generic
    for routine in ("rand_qsvd", "pass_eff_qsvd"):
        for j, cs_ in enumerate(("right_multiple", "sum_of_two", "zero_column")):
            for (m_, n_, R_, P_) in ((8, 5, 4, 1), (8, 5, 3, 5), (4, 7, 3, 5), (6, 6, 4, 2), (7, 4, 2, 0)):
                for it_ in (0, 1):
                    out.append({"kind": "run", "cls": "colstruct", "routine": routine, "idx": 4 * 10 ** 6 + 100 * j + 10 * m_ + n_ + it_, "seed": seed, "maxd": maxd,
                                "nseeds": 1 if tier == "quick" else 3,
                                "fixed": {"m": m_, "n": n_, "R": R_, "P": P_, "r": min(m_, n_), "kind": "simple", "n_iter": it_, "n_passes": 2 + it_, "colstruct": cs_}})
    for routine in ("rand_qsvd", "pass_eff_qsvd"):
        for j, st_ in enumerate(("diag", "upper_tri", "lower_tri", "unit_identity", "real_only", "herm_indef", "unitary", "int", "sparse", "axis2", "nilpotent_chain", "block_offdiag")):
            for t_, (m_, n_, R_, P_) in enumerate(((6, 6, 3, 1), (6, 6, 4, 4), (8, 5, 2, 0), (5, 8, 3, 6), (7, 7, 7, 0), (8, 8, 2, 2), (8, 8, 4, 0))):
                if tier == "quick" and (j + t_) % 2:
                    continue
                for it_ in (0, 2) if tier == "quick" else (0, 1, 2, 3):
                    out.append({"kind": "run", "cls": "structured", "routine": routine, "idx": 5 * 10 ** 6 + 1000 * j + 100 * t_ + it_, "seed": seed, "maxd": maxd,
                                "nseeds": 1 if tier == "quick" else 2,
                                "fixed": {"m": m_, "n": n_, "R": R_, "P": P_, "r": min(m_, n_), "kind": "simple", "n_iter": it_, "n_passes": 2 + it_,      # the property covers two or more passes
                                          "colstruct": "struct:" + st_}})
    # narrow sketches (R + P well below min(m, n)) on slowly decaying spectra, ODD pass counts, many random draws: the returned values must
    # interlace for every draw (a value computed from the wrong side of the last pass exceeds sigma_i only for a few draws in a hundred)
    for j, (m_, n_, R_, P_) in enumerate(((10, 11, 7, 0), (12, 12, 6, 2), (16, 14, 8, 2), (9, 13, 5, 1), (14, 10, 6, 0))):
        for passes_ in (3, 5) if tier == "quick" else (2, 3, 4, 5):
            out.append({"kind": "run", "cls": "narrow_sketch_many_draws", "routine": "pass_eff_qsvd", "idx": 7 * 10 ** 6 + 10 * j + passes_, "seed": seed, "maxd": maxd,
                        "nseeds": 20 if tier == "quick" else 60,
                        "fixed": {"m": m_, "n": n_, "R": R_, "P": P_, "r": min(m_, n_), "kind": "simple", "n_iter": 1, "n_passes": passes_}})
    # strongly tall (m > 2n) or wide input with a sketch wider than twice the small dimension: the small triangular factors are then
    # strongly rectangular; every pass count / iteration count
    for routine in ("rand_qsvd", "pass_eff_qsvd"):
        for j, (m_, n_, R_, P_) in enumerate(((9, 3, 2, 8), (12, 4, 3, 10), (10, 3, 3, 6), (3, 9, 2, 8), (4, 13, 4, 9))):
            for it_ in (0, 1, 2) if tier == "quick" else (0, 1, 2, 3):
                out.append({"kind": "run", "cls": "wide_sketch_on_thin_matrix", "routine": routine, "idx": 6 * 10 ** 6 + 10 * j + it_, "seed": seed, "maxd": maxd,
                            "nseeds": 1 if tier == "quick" else 3,
                            "fixed": {"m": m_, "n": n_, "R": R_, "P": P_, "r": min(m_, n_), "kind": "simple", "n_iter": it_, "n_passes": 2 + it_}})
    for routine in ("rand_qsvd", "pass_eff_qsvd"):
        for j, sc_ in enumerate((2.0 ** -60, 2.0 ** -200, 2.0 ** 100, 2.0 ** -30)):
            for (m_, n_, R_, P_, r_, kind_) in ((9, 7, 3, 0, 3, "simple"), (6, 8, 2, 0, 2, "simple"), (7, 7, 3, 2, 7, "geometric")):
                out.append({"kind": "run", "cls": "scaled", "routine": routine, "idx": 3 * 10 ** 6 + 10 * j + m_, "seed": seed, "maxd": maxd, "nseeds": 1,
                            "fixed": {"m": m_, "n": n_, "R": R_, "P": P_, "r": r_, "kind": kind_, "n_iter": 1 + j % 3, "n_passes": 2 + j % 3, "scale": sc_}})
    for routine in ("rand_qsvd", "pass_eff_qsvd"):
        for j, (m_, n_, R_, P_, r_, kind_) in enumerate(ladder):
            for par in ((2, 2), (3, 3)) if tier == "quick" else ((0, 2), (1, 3), (2, 4), (3, 5)):
                out.append({"kind": "run", "cls": "ladder", "routine": routine, "idx": 2 * 10 ** 6 + 10 * j + par[0], "seed": seed, "maxd": maxd,
                            "nseeds": 1 if tier == "quick" else 3,
                            "fixed": {"m": m_, "n": n_, "R": R_, "P": P_, "r": r_, "kind": kind_, "n_iter": par[0], "n_passes": par[1]}})
    return out


def _config(rng, spec):
    if spec.get("fixed"):
        fx = spec["fixed"]
        m, n, R, P, r, kind = fx["m"], fx["n"], fx["R"], fx["P"], fx["r"], fx["kind"]
        s = gen.spectrum("geometric", r, rng, 1e6) if kind == "geometric_hard" else gen.spectrum(kind, r, rng, 10.0)
        return m, n, R, P, r, kind, np.concatenate([s, np.zeros(min(m, n) - r)])
    maxd = spec["maxd"]
    i = spec["idx"]
    shape_kind = i % 3
    if shape_kind == 0:
        m = n = int(rng.integers(2, maxd + 1))
    elif shape_kind == 1:
        n = int(rng.integers(2, maxd)); m = int(rng.integers(n + 1, maxd + 1))
    else:
        m = int(rng.integers(2, maxd)); n = int(rng.integers(m + 1, maxd + 1))
    N, X = min(m, n), max(m, n)
    regime = (i // 3) % 4
    if regime == 0 and N >= 2:      # R + P < min
        R = int(rng.integers(1, N))
        P = int(rng.integers(0, N - R))
    elif regime == 1:               # R + P == min
        R = int(rng.integers(max(1, N - 10), N + 1))
        P = N - R
    elif regime == 2 and X > N:     # min < R + P <= max
        R = int(rng.integers(max(1, N + 1 - 10), N + 1))
        P = int(rng.integers(N - R + 1, min(10, X - R) + 1)) if min(10, X - R) >= N - R + 1 else N - R + 1
    else:                           # R + P > max
        R = int(rng.integers(max(1, X + 1 - 10), N + 1)) if X + 1 - 10 <= N else N
        P = min(10, X - R + int(rng.integers(1, 4)))
    P = int(max(0, min(10, P)))
    rk_kind = int(rng.integers(0, 5))
    if rk_kind in (0, 1):
        r = N
    elif rk_kind == 2:
        r = R
    elif rk_kind == 3:
        r = int(rng.integers(0, R))
    else:
        r = min(N, R + int(rng.integers(1, max(2, P + 1))))
    spec_kind = str(rng.choice(["simple", "simple", "geometric", "equal", "cluster", "geometric_hard", "repeat2"]))
    if spec_kind == "geometric_hard":
        s = gen.spectrum("geometric", r, rng, 1e6)
    elif spec_kind == "geometric":
        s = gen.spectrum("geometric", r, rng, 1e2)
    else:
        s = gen.spectrum(spec_kind, r, rng, 10.0)
    svals = np.concatenate([s, np.zeros(N - r)])
    return m, n, R, P, r, spec_kind, svals


def _spectrum_tags(svals, R):
    """Ground-truth multiplicity tags (the final small SVD is contracted exactly like classical_qsvd: F-C05-a/a2)."""
    nz = np.asarray([v for v in svals if v > 0], dtype=float)
    tags, relgap = [], None
    if len(nz) >= 2:
        d = np.abs(np.diff(nz)) / nz[0]
        if np.any(d <= 1e-9):
            tags.append("repeated_nonzero_sv")
        g = d[d > 1e-9]
        if len(g) and g.min() < 1e-2:
            relgap = float(g.min())
    return tags, relgap


def run_case(spec, ctx, R):
    rng = gen.rng_for(spec["seed"], "c12", spec["idx"])
    m, n, Rk, P, r, spec_kind, svals = _config(rng, spec)
    A, _, _ = refq.with_singular_values(rng, m, n, svals)
    cs_ = (spec.get("fixed") or {}).get("colstruct")
    if cs_:
        # exact column structure in NON-trailing positions (a right multiple of another column, a sum of two columns, a zero column):
        # the routine's Gaussian mixing makes it immune to where a dependency sits; the ground-truth spectrum is recomputed
        c_ = refq.fa(refq.randq(rng, m, n)).copy()
        Aq = refq.qa(c_)
        if cs_ == "right_multiple" and n >= 2:
            Aq[:, 1] = Aq[:, 0] * refq.randq(rng, 1, 1)[0, 0]
        elif cs_ == "sum_of_two" and n >= 3:
            Aq[:, 2] = Aq[:, 0] + Aq[:, 1]
        elif cs_ == "zero_column" and n >= 2:
            Aq[:, 1] = np.quaternion(0, 0, 0, 0)
        elif cs_.startswith("struct:"):
            # exactly structured inputs (diagonal, triangular, partial identity, real-only, Hermitian, unitary, integer, sparse pattern) under every
            # option regime: what the sketch sees is then far from generic (exact zeros, orthogonal columns, repeated values are judged by the tags)
            sc2 = cs_.split(":", 1)[1]
            if sc2 in ("nilpotent_chain", "block_offdiag"):
                # square matrices whose POWERS lose rank (nilpotent weighted shift W J W^H, block off-diagonal [[0, B], [0, 0]]): X and X^H have the
                # same singular values but a subspace iteration with X alone (instead of X X^H) forgets part of range(X)
                n_ = min(m, n)
                Jc = np.zeros((n_, n_, 4))
                if sc2 == "nilpotent_chain":
                    for t_, w_ in enumerate([3.0, 2.0, 1.0, 0.5][: max(1, n_ // 2)]):
                        Jc[t_, t_ + 1, 0] = w_
                else:
                    h_ = n_ // 2
                    Jc[:h_, n_ - h_:] = refq.fa(refq.randq(rng, h_, h_))
                W_ = refq.rand_unitary(rng, n_)
                core = refq.matmul(refq.matmul(W_, refq.qa(Jc)), refq.herm(W_))
                Aq = refq.zeros(m, n); Aq[:n_, :n_] = core
            elif sc2 in ("int", "sparse"):
                Aq = gen.entries(rng, sc2, m, n)
                if sc2 == "int":
                    Aq = Aq + refq.diagq(np.full(min(m, n), 7.0), m, n)
            else:
                Aq = gen.structured(rng, sc2, m, m if gen.is_square_class(sc2) else n)
                if Aq.shape != (m, n):
                    full = refq.zeros(m, n)
                    k_ = min(m, n, Aq.shape[0])
                    full[:k_, :k_] = Aq[:k_, :k_]
                    Aq = full
        A = Aq
        svals = embed.svals(A)
        svals = np.where(svals > 1e-12 * svals[0], svals, 0.0)
        r = int(np.sum(svals > 0))
        ctx.hit("inputs:column_structure")
    sc_ = (spec.get("fixed") or {}).get("scale")
    if sc_:
        # exact power-of-two scaling of the whole problem: every clause is relative to ||A||
        A = A * sc_
        svals = svals * sc_
        ctx.hit("scale:pow2_extreme")
    A = gen.layout(A, ["C", "C", "F", "strided", "C", "transposed_view"][spec["idx"] % 6])
    routine = spec["routine"]
    N = min(m, n)
    if routine == "rand_qsvd":
        par = {"oversample": P, "n_iter": int(rng.integers(0, 4)) if not spec.get("fixed") else spec["fixed"].get("n_iter", 3)}
    else:
        par = {"oversample": P, "n_passes": int(rng.integers(2, 6)) if not spec.get("fixed") else spec["fixed"].get("n_passes", 4)}
    ctx.hit("regime:R+P" + ("<min" if Rk + P < N else "=min" if Rk + P == N else ">max" if Rk + P > max(m, n) else ">min"))
    ctx.hit("rankclass:" + ("full" if r == N else "eqR" if r == Rk else "ltR" if r < Rk else "gtR"))
    s_or = embed.svals(A)
    nrm = refq.fro(A)
    f = getattr(R.qsvd, routine)
    first = None
    for k in range(spec["nseeds"] + 1):
        sd = (spec["seed"] * 1000003 + spec["idx"] * 101 + k) % (2 ** 31)
        site = f"{routine}"
        if k == spec["nseeds"]:
            # history: the caller updates the SAME array object in place (scaled copy of other data with the same spectrum class)
            # and decomposes it again; every clause is judged against the oracle for the NEW contents
            if not A.flags.writeable:
                break
            c_new = 1e-3 if spec["idx"] % 2 else 37.0
            B_new, _, _ = refq.with_singular_values(rng, m, n, svals)
            A[...] = B_new * c_new
            svals = svals * c_new
            s_or = embed.svals(A)
            nrm = refq.fro(A)
            site = f"{routine}:after_inplace_update"
            ctx.hit("history:inplace_update_then_call")
        mult_tags, relgap = _spectrum_tags(svals, Rk)
        tags_base = [f"regime:{'narrow' if Rk + P <= N else 'wide'}"] + mult_tags
        if r < Rk:
            tags_base.append("rank<R")
        ctx.distinct(A, routine, par, Rk, sd, nontrivial=N >= 2)
        _QR_LOG.clear()
        np.random.seed(sd)
        A0 = refq.fa(A).copy()
        # call forms: the rank / oversampling / iteration counts in the integer types a caller may hold them in
        form = (spec["idx"] + k) % 4
        Rarg = [Rk, np.int64(Rk), np.int32(Rk), np.intp(Rk)][form]
        par_call = {kk: (np.int64(vv) if form == 2 else vv) for kk, vv in par.items()}
        ctx.hit("callform:R_as_" + type(Rarg).__name__)
        try:
            U, s, V = f(A, Rarg, **par_call)
        except Exception as e:
            ctx.check("unexpected_exception", False, site=site, tags=tags_base,
                      detail={"exception": repr(e), "shape": [m, n], "R": Rk, **par, "rank": r, "np_seed": sd})
            continue
        inner = list(_QR_LOG)
        tags = list(tags_base)
        kmax = max([q["kappa_leading"] for q in inner if np.isfinite(q["kappa_leading"])] + [1.0])
        # Attribution to the QR findings needs BOTH the observation (a sketch handed to qr_qua was rank-deficient) AND generator ground truth that
        # this is unavoidable for the input: rank(A) < min(R + oversample, min(m, n)).  For rank(A) >= min(R + P, min(m, n)) a
        # Gaussian sketch of A has full column rank with probability one - a rank-deficient inner factor is then the routine's own doing
        # (e.g. an iteration that forgets part of range(A)) and gets no tag.
        unavoidable = r < min(Rk + P, N)      # A itself is rank-deficient relative to the sketch; a FULL-rank A with a sketch wider than the matrix is
        #                                        handled correctly by the routines (no tag; verified on seeds 0..3 of both tiers)
        if unavoidable and any(q["deficient"] or not np.isfinite(q["kappa_leading"]) for q in inner):
            tags.append("inner_qr_rank_deficient")
        nzs = [v for v in svals if v > 0]
        cond_truth = (max(nzs) / min(nzs)) if nzs else 1.0
        if not unavoidable and cond_truth <= 1e2:
            kmax = 1.0                     # a well-conditioned input of sufficient rank gives well-conditioned sketches: no graded excuse either
        inner_orth = max([q["orth_err"] for q in inner if np.isfinite(q["orth_err"])] + [0.0])
        det = {"shape": [m, n], "R": Rk, **par, "rank": r, "np_seed": sd, "inner_qr": [(q["shape"], q["rank"], float(f"{q['kappa_leading']:.3g}")) for q in inner]}
        ctx.check("input_unchanged", np.array_equal(refq.fa(A), A0), site=site, tags=tags)
        s = np.asarray(s, dtype=float)
        ok = U.shape == (m, Rk) and V.shape == (n, Rk) and s.shape == (Rk,)
        ctx.check("shapes", ok, site=site, tags=tags, detail={**det, "U": U.shape, "V": V.shape, "s": s.shape})
        if not ok:
            continue
        fin = refq.is_finite(U) and refq.is_finite(V) and bool(np.all(np.isfinite(s)))
        ctx.check("finite", fin, site=site, tags=tags, detail=det)
        if not fin:
            continue
        ob = C * max(m, n) * EPS * max(1.0, Rk ** 0.5)

        def gtags(val, bound):
            """Graded attribution to F-C06-d: deviation within eps*kappa(inner qr inputs)."""
            t = list(tags)
            if np.isfinite(val) and bound < val <= bound * min(kmax, 1e16) and kmax > 1e2:
                t.append("inner_qr_ill_conditioned")
            if relgap is not None and np.isfinite(val) and bound < val <= bound / relgap:
                t.append("clustered_nonzero_sv")
            return t
        ue, ve = refq.orth_err(U), refq.orth_err(V)
        ctx.check("U_orthonormal", ue, ob, site=site, tags=gtags(ue, ob), detail=det)
        ctx.check("V_orthonormal", ve, ob, site=site, tags=gtags(ve, ob), detail=det)
        ctx.check("s_sorted_nonneg", bool(np.all(s >= 0) and np.all(np.diff(s) <= 1e-14 * max(s_or[0], 1e-300))), site=site, tags=tags,
                  detail={**det, "s": s})
        s1 = max(float(s_or[0]), 1e-300)
        over = float(np.max(s - s_or[:Rk]))
        ib = C * max(m, n) * EPS * s1
        ctx.check("s_interlacing", over, ib, site=site, tags=gtags(over, ib), detail={**det, "s": s, "sigma": s_or[:Rk]})
        approx = refq.matmul(U * s[None, :], refq.herm(V))
        err = refq.fro(A - approx)
        opt = float(np.sqrt(np.sum(s_or[Rk:] ** 2)))
        eb = C * max(m, n) * EPS * max(nrm, 1e-300)
        ctx.check("error_ge_optimum", opt - err, eb, site=site, tags=tags, detail={**det, "err": err, "optimum": opt})
        ctx.check("error_le_normA", err - nrm, eb, site=site, tags=gtags(err - nrm, eb), detail={**det, "err": err, "normA": nrm})
        if r <= Rk:
            ctx.check("exact_on_low_rank", err, eb, site=site, tags=gtags(err, eb), detail={**det, "err": err})
        if k == 0:
            first = (sd, refq.fa(U).copy(), s.copy(), refq.fa(V).copy(), refq.fa(A).copy())
    if first is not None:
        A[...] = refq.qa(first[4])
        first = first[:4]
        sd, U0, s0, V0 = first
        np.random.seed(sd)
        try:
            U, s, V = f(A, Rk, **par)
            same = np.array_equal(refq.fa(U), U0) and np.array_equal(np.asarray(s), s0) and np.array_equal(refq.fa(V), V0)
        except Exception:
            same = False
        ctx.check("seed_reproducible", same, site=routine)
    if spec["idx"] % 37 == 0:
        ctx.sample({"routine": routine, "shape": [m, n], "R": Rk, **par, "rank": r, "spectrum": spec_kind, "svals": svals})
