"""C09 Hessenberg reduction (DESIGN.md section 7, C09)."""
from __future__ import annotations

import numpy as np

from .. import gen, reach
from ..oracle import embed, refq

ID = "C09"
LEVEL = "exploration"
RULE = ("hessenbergize on n x n inputs (n = 1..7 quick / 1..12 thorough): Gaussian, already upper Hessenberg, upper / lower triangular, "
        "Hermitian (prescribed spectrum), zero columns below the sub-diagonal (reflector alpha == 0), zero matrix, identity-like, "
        "integer, sparse patterns, pure-imaginary, single-axis, rank-1, nilpotent shift, scalings 1e-6..1e6, memory layouts. Each (P,H) "
        "is judged: P unitary, entries below the first sub-diagonal negligible, H = P A P^H, ||H||_F = ||A||_F, the singular values of "
        "H - mu I equal those of A - mu I for three real shifts mu (invariants of unitary similarity that determine the spectrum), "
        "eigenvalues equal for Hermitian A; is_hessenberg is compared with the structure predicate at its own tolerance. "
        "distinct = input digest; non-trivial = n >= 3 and A != 0")
ASSUMPTIONS = ["backward-error constant c = 1e3 (times n for the accumulated n-2 reflections)",
               "singular values compared through LAPACK gesdd on the complex adjoint"]
SHARDS = {"quick": 8, "thorough": 16}
DECIDING = ["shapes_finite", "P_unitary", "H_hessenberg", "similarity", "norm_preserved", "shifted_singular_values",
            "hermitian_eigenvalues", "is_hessenberg_agrees", "input_unchanged", "result_not_aliased"]
MUST_REACH = ["hessenbergize:n<=2", "householder:alpha_zero", "class:already_hessenberg"]

C = 1e3
CLASSES = ["cancelling_tail", "equal_moduli_tail", "gauss", "hessenberg", "upper_tri", "lower_tri", "hermitian", "zero_subcolumns", "zero_matrix", "identity", "int", "sparse",
           "pure_imag", "single_axis", "rank1", "nilpotent", "scaled_small", "scaled_big", "layout", "tridiag", "unitary", "companion",
           "near_hessenberg", "graded_columns", "nearly_hermitian", "block_upper_tri", "block_diag", "near_real_pivot", "real_plus_tiny_vector_parts"]

_REACH = None


def setup(ctx, R):
    global _REACH
    _REACH = reach.Reach(ctx)
    _REACH.watch(reach.Locator(R.hessenberg.hessenbergize, "hessenbergize:n<=2", "n <= 2"))
    # hessenberg.py imports householder_matrix from its own (package-relative) copy of tridiagonalize
    hm = R.hessenberg.householder_matrix
    import sys
    tmod = sys.modules[hm.__module__]
    _REACH.watch(reach.Locator(tmod.householder_vector, "householder:alpha_zero", "alpha == 0"))
    _REACH.watch(reach.Locator(tmod.householder_vector, "householder:r_zero", "r != 0", which="orelse"))
    _REACH.start()


def teardown(ctx, R):
    if _REACH:
        _REACH.stop()


def cases(tier, seed):
    out = []
    maxn = 7 if tier == "quick" else 20
    rep = 40 if tier == "quick" else 300
    idx = 0
    for cls in CLASSES:
        for r in range(rep):
            out.append({"kind": "h", "cls": cls, "idx": idx, "seed": seed, "maxn": maxn})
            idx += 1
    # sparse patterns at larger sizes: the parts of a column that are eliminated consist of round-off of earlier steps, whose size
    # shrinks geometrically with the step (1e-160 after 8 steps): the reflector construction has to cope with any magnitude
    for r in range(60 if tier == "quick" else 600):
        out.append({"kind": "h", "cls": "sparse", "idx": idx, "seed": seed, "maxn": maxn, "n": 9 + r % (8 if tier == "quick" else 16)})
        idx += 1
    # size ladder beyond plausible panel widths (8 / 16 / 32; n, n-1, n-2 multiples of 16)
    for n in ([9, 12, 16, 17, 18, 19, 24, 33, 34] if tier == "quick" else list(range(9, 37)) + [48, 49, 50, 64, 65, 66]):
        for cls in ("gauss", "hermitian", "int") if tier == "quick" else ("gauss", "hermitian", "int", "near_hessenberg", "sparse", "upper_tri"):
            out.append({"kind": "h", "cls": cls, "idx": idx, "seed": seed, "maxn": maxn, "n": n})
            idx += 1
    for r in range(12 if tier == "quick" else 80):
        out.append({"kind": "h", "cls": ["gauss", "int", "near_hessenberg"][r % 3], "idx": idx, "seed": seed, "maxn": maxn, "n": 3 + r % 5, "history": True})
        idx += 1
    # fixed witness of defect 10.1/C09 (found by the thorough tier): 12 x 12, three non-zero entries of ordinary size
    out.append({"kind": "h", "cls": "sparse", "idx": 3331, "seed": 0, "maxn": 20})
    # exact power-of-two scalings into the range where squares of the entries under- or overflow
    for cls in ("gauss", "hermitian", "int", "sparse", "near_hessenberg", "upper_tri"):
        for p2 in (-1000, -900, -600, -540, -520, -500, -400, 400, 500, 520, 600):
            for r in range(1 if tier == "quick" else 5):
                out.append({"kind": "h", "cls": cls, "idx": idx, "seed": seed, "maxn": min(maxn, 8), "pow2": p2})
                idx += 1
    return out


def make(rng, cls, n):
    if cls == "gauss":
        return refq.randq(rng, n, n)
    if cls in ("cancelling_tail", "equal_moduli_tail"):
        # exact-arithmetic coincidences in the part of a column that has to be eliminated: entries that are non-zero but sum to
        # exactly zero (e.g. +1, -1 / i, j, -i-j), or that all have the same modulus
        c = np.round(rng.standard_normal((n, n, 4)) * 2.0)
        for j in range(max(0, n - 2)):
            if rng.random() < 0.7 or j == 0:
                t = n - (j + 2)
                if t >= 2:
                    v = np.round(rng.standard_normal((t, 4)) * 2.0)
                    if cls == "cancelling_tail":
                        v[-1] = -v[:-1].sum(axis=0)
                        if not np.any(v):
                            v[0, 1], v[-1, 1] = 1.0, -1.0
                    else:
                        for q in range(t):
                            ax = int(rng.integers(0, 4)); v[q] = 0.0; v[q, ax] = float(rng.choice([-2.0, 2.0]))
                    c[j + 2:, j] = v
        return refq.qa(c)
    if cls == "near_hessenberg":
        # Hessenberg plus a SMALL but far-from-negligible part below the sub-diagonal (relative size 1e-4 .. 1e-12, one size per
        # column): "negligible" in the property means round-off of the input norm, so these still have to be eliminated
        c = rng.standard_normal((n, n, 4)) * np.triu(np.ones((n, n)), -1)[..., None]
        for j in range(max(0, n - 2)):
            c[j + 2:, j] = rng.standard_normal((n - j - 2, 4)) * 10.0 ** (-float(rng.integers(4, 13)))
        return refq.qa(c)
    if cls == "nearly_hermitian":
        # Hermitian up to a relative perturbation of 1e-5 .. 1e-12: neither the Hermitian nor the generic class
        Hh = refq.randq(rng, n, n)
        Hh = Hh + refq.herm(Hh)
        return Hh + refq.randq(rng, n, n) * (10.0 ** -float(rng.integers(5, 13)))
    if cls == "graded_columns":
        c = rng.standard_normal((n, n, 4)) * (10.0 ** (-rng.integers(0, 10, size=n).astype(float)))[None, :, None]
        return refq.qa(c)
    if cls == "hessenberg":
        c = rng.standard_normal((n, n, 4)) * np.triu(np.ones((n, n)), -1)[..., None]
        return refq.qa(c)
    if cls in ("upper_tri", "lower_tri"):
        return gen.structured(rng, cls, n, n)
    if cls == "hermitian":
        e = rng.standard_normal(n) * 2.0
        if n >= 3 and rng.random() < 0.5:
            e[1] = e[0]
        return refq.hermitian_with_eigs(rng, e)[0]
    if cls == "zero_subcolumns":
        c = rng.standard_normal((n, n, 4))
        for j in range(n):
            if rng.random() < 0.6:
                c[j + 2:, j] = 0.0           # nothing to eliminate in column j
            elif rng.random() < 0.5:
                c[j + 1:, j] = 0.0           # whole sub-column zero: alpha == 0
        return refq.qa(c)
    if cls in ("block_upper_tri", "block_diag"):
        # reducible input [[A11, A12], [0, A22]] with a DENSE leading block (order >= 3 when n allows): the columns of the leading block need
        # genuine reflectors (which act as the identity on the trailing rows), then comes a column that is ALREADY reduced (exact zeros below
        # its sub-diagonal, non-real sub-diagonal entry or none) while the accumulated P is no longer real; the trailing block is dense,
        # Hessenberg or triangular
        c = rng.standard_normal((n, n, 4))
        p_ = max(1, min(n - 1, int(rng.integers(3, max(4, n - 1))))) if n >= 2 else 1
        c[p_:, :p_] = 0.0
        if cls == "block_diag":
            c[:p_, p_:] = 0.0
        tk = int(rng.integers(0, 3))
        for j in range(p_, n):
            if tk == 1:
                c[j + 2:, j] = 0.0
            elif tk == 2:
                c[j + 1:, j] = 0.0
        return refq.qa(c)
    if cls in ("near_real_pivot", "real_plus_tiny_vector_parts"):
        # NEAR-real data (not real): the entry that carries the reflector's phase is real up to a vector part of relative size 1e-8 .. 1e-12, or
        # the whole matrix is real up to such parts - the phase is still a genuine quaternion and must be carried
        c = rng.standard_normal((n, n, 4))
        t_ = float(rng.choice([3e-9, 1e-8, 1e-10, 1e-12]))
        if cls == "near_real_pivot":
            for k in range(max(0, n - 2)):
                if rng.random() < 0.6 or k == 0:
                    c[k + 1, k, 1:] = c[k + 1, k, 1:] * t_ * abs(c[k + 1, k, 0])
        else:
            c[..., 1:] *= t_
        return refq.qa(c)
    if cls == "zero_matrix":
        return refq.zeros(n, n)
    if cls == "identity":
        return gen.structured(rng, "unit_identity", n, n)
    if cls in ("int", "sparse", "pure_imag", "single_axis"):
        return gen.entries(rng, cls, n, n)
    if cls == "rank1":
        return gen.structured(rng, "rank1", n, n)
    if cls == "nilpotent":
        c = np.zeros((n, n, 4))
        for i in range(n - 1):
            c[i + 1, i] = rng.standard_normal(4)
        P = refq.rand_unitary(rng, n)
        return refq.matmul(refq.matmul(P, refq.qa(c)), refq.herm(P))
    if cls == "scaled_small":
        return refq.randq(rng, n, n) * float(rng.choice([1e-6, 1e-13]))
    if cls == "scaled_big":
        return refq.randq(rng, n, n) * float(rng.choice([1e6, 1e13]))
    if cls == "layout":
        return gen.layout(refq.randq(rng, n, n), str(rng.choice(gen.LAYOUTS)))
    if cls == "tridiag":
        c = rng.standard_normal((n, n, 4)) * (np.abs(np.subtract.outer(np.arange(n), np.arange(n))) <= 1)[..., None]
        return refq.qa(c)
    if cls == "unitary":
        return refq.rand_unitary(rng, n)
    if cls == "companion":
        c = np.zeros((n, n, 4))
        for i in range(n - 1):
            c[i + 1, i, 0] = 1.0
        c[:, n - 1] = rng.standard_normal((n, 4))
        P = np.eye(n)[rng.permutation(n)]
        Cq = refq.qa(c)
        Pq = refq.diagq(np.ones(n))
        Pq = refq.qa(np.concatenate([P[..., None], np.zeros((n, n, 3))], axis=-1))
        return refq.matmul(refq.matmul(Pq, Cq), refq.herm(Pq))
    raise ValueError(cls)


def below_subdiag_max(H):
    n = H.shape[0]
    if n < 3:
        return 0.0
    mask = np.tril(np.ones((n, n)), -2)
    return float((refq.absq(H) * mask).max())


def run_case(spec, ctx, R):
    rng = gen.rng_for(spec["seed"], "c09", spec["idx"])
    cls = spec["cls"]
    n = 1 + (spec["idx"] % spec["maxn"]) if spec["idx"] % 2 else int(rng.integers(1, spec["maxn"] + 1))
    n = spec.get("n", n)
    if spec.get("pow2"):
        n = max(n, 3)
    A = make(rng, cls, n)
    ctx.distinct(A, nontrivial=n >= 3 and refq.fro(A) > 0)
    if cls == "hessenberg":
        ctx.hit("class:already_hessenberg")
    if spec.get("history"):
        for lab, X in gen.history_forms(A):
            judge(ctx, R, X, "hessenbergize:history:" + lab, [cls, "history"])
        ctx.hit("history:one_buffer_many_calls")
        return
    if spec.get("pow2"):
        ctx.hit("scale:pow2_extreme")
        judge(ctx, R, A, "hessenbergize:scaled_2^%d" % spec["pow2"], [cls, "extreme_scale"], pow2=spec["pow2"])
        return
    judge(ctx, R, A, "hessenbergize", [cls])
    if spec["idx"] % 41 == 0:
        ctx.sample({"class": cls, "n": n, "A": A})


def judge(ctx, R, A, site, tags, pow2=0):
    """pow2 != 0: the routine is given A * 2**pow2 (an exact scaling) and its H is scaled back exactly before it is judged against A,
    so that the oracle arithmetic stays in the normal range while the routine works where squares under- or overflow."""
    Hm = R.hessenberg
    n = A.shape[0]
    eps = refq.EPS
    nrm = refq.fro(A)
    floor = 1e-300
    A0 = refq.fa(A).copy()
    try:
        if pow2:
            with np.errstate(all="ignore"):
                P, H = Hm.hessenbergize(A * 2.0 ** pow2)
            H = H * 2.0 ** (-pow2)
        else:
            P, H = Hm.hessenbergize(A)
    except Exception as e:
        ctx.check("unexpected_exception", False, site=site, tags=tags, detail={"exception": repr(e), "n": n})
        return
    ctx.check("input_unchanged", np.array_equal(refq.fa(A), A0), site=site, tags=tags)
    ok = P.shape == (n, n) and H.shape == (n, n) and refq.is_finite(P) and refq.is_finite(H)
    ctx.check("shapes_finite", ok, site=site, tags=tags)
    if not ok:
        return
    ctx.check("result_not_aliased", not (np.shares_memory(H, A) or np.shares_memory(P, A)), site=site, tags=tags)
    sweeps = max(1, n - 2)
    ctx.check("P_unitary", refq.orth_err(P), C * n * eps * sweeps, site=site, tags=tags)
    bnd = C * n * eps * sweeps * max(nrm, floor) + floor
    low = below_subdiag_max(H)
    ctx.check("H_hessenberg", low, bnd, site=site, tags=tags, detail={"n": n, "normA": nrm})
    ctx.check("similarity", refq.fro(refq.matmul(refq.matmul(P, A), refq.herm(P)) - H), bnd, site=site, tags=tags, detail={"n": n})
    ctx.check("norm_preserved", abs(refq.fro(H) - nrm), bnd, site=site, tags=tags)
    s1 = max(float(embed.svals(A)[0]), floor)
    I = refq.eye(n)
    worst = 0.0
    for mu in (0.0, 0.37 * s1, -1.3 * s1):
        sa = embed.svals(A - mu * I)
        sh = embed.svals(H - mu * I)
        worst = max(worst, float(np.max(np.abs(sa - sh))))
    ctx.check("shifted_singular_values", worst, C * n * eps * sweeps * max(s1, floor) * 3 + floor, site=site, tags=tags)
    if np.array_equal(refq.fa(A), refq.fa(refq.herm(A))):
        ea = embed.eigvalsh(A)
        Hs = refq.symmetrize(H)
        ok_h = refq.fro(H - Hs) <= bnd
        eh = embed.eigvalsh(Hs)
        ctx.check("hermitian_eigenvalues", float(np.max(np.abs(ea - eh))) if ok_h else float("inf"),
                  C * n * eps * sweeps * max(s1, floor) + floor, site=site, tags=tags)
    if pow2:
        return
    # is_hessenberg agrees with the structure predicate at its own (absolute, componentwise) tolerance
    for M, nm in ((H, "H"), (A, "A")):
        for atol in (1e-12, 1e-6):
            comp = np.abs(refq.fa(M)) * np.tril(np.ones((n, n)), -2)[..., None]
            mx = float(comp.max()) if n >= 3 else 0.0
            if 0.5 * atol < mx < 2 * atol:
                ctx.skip("is_hessenberg_agrees", "within a factor 2 of the tolerance")
                continue
            try:
                got = bool(Hm.is_hessenberg(M, atol=atol))
            except Exception as e:
                got = None
            ctx.check("is_hessenberg_agrees", got == (mx <= atol), site=f"is_hessenberg({nm},atol={atol:g})", tags=tags,
                      detail={"max_component_below": mx, "returned": got})
