"""C01 Hamilton product in every storage format (DESIGN.md section 7, C01)."""
from __future__ import annotations

import itertools
import math

import numpy as np
import quaternion
from scipy import sparse

from .. import gen
from ..oracle import exactq, refq

ID = "C01"
LEVEL = "exploration"
EXHAUSTIVE = True
EXHAUSTIVE_NOTE = ("sub-space enumerated completely: every position pair and all 16 basis-unit pairs for every "
                   "shape (m,k,n) in the listed set, on every storage path; the random entry classes are sampled")
RULE = ("(a) exhaustive: A = e_a at (i,l), B = e_b at (l',j) for all shapes in the tier's shape set, all positions, "
        "all 16 unit pairs, on 9 product paths, compared with == against e_a*e_b from the defining relations; "
        "(b) sampled: 9 entry classes x shapes x paths against the exact rational Hamilton product (sizes<=6) or the "
        "definition-by-scalar-products reference with a rigorous forward bound; (c) laws (involution, product reversal, "
        "Frobenius norm across formats / under ^H / under unitary factors / sub-multiplicativity). distinct = distinct "
        "(A,B) input pairs by byte digest; non-trivial = product not identically zero by construction (l == l') or random class != zeros")
ASSUMPTIONS = ["numpy-quaternion scalar multiply and Python Fractions are the trusted reference arithmetic",
               "magnitudes bounded by 1e+-140 so that products stay finite and normal"]
SHARDS = {"quick": 8, "thorough": 16}
DECIDING = ["basis_exact", "product_T2", "herm_involution", "product_reversal", "fro_formats", "fro_unitary", "fro_submult"]

PATHS = ["dd", "sd", "ds", "ss", "op_sd", "op_ss", "tq", "tq_sparse", "dd_1d"]


def _comps(A):
    c = quaternion.as_float_array(A)
    return [np.ascontiguousarray(c[..., k]) for k in range(4)]


def densify(S):
    """SparseQuaternionMatrix -> dense quaternion array (harness side)."""
    c = np.stack([S.real.toarray(), S.i.toarray(), S.j.toarray(), S.k.toarray()], axis=-1)
    return quaternion.as_quat_array(c)


def product(R, path, A, B):
    """The repository's product of A and B along one storage path; returns dense quaternion array."""
    U = R.utils
    if path == "dd":
        return U.quat_matmat(A.copy(), B.copy())
    if path == "dd_1d":
        # matrix x 1-D vector (only meaningful when B has one column)
        return U.quat_matmat(A.copy(), B[:, 0].copy()).reshape(-1, 1)
    if path == "sd":
        return U.quat_matmat(R.sparse_from_dense(A), B.copy())
    if path == "ds":
        out = U.quat_matmat(A.copy(), R.sparse_from_dense(B))
        return densify(out) if isinstance(out, U.SparseQuaternionMatrix) else out
    if path == "ss":
        return densify(U.quat_matmat(R.sparse_from_dense(A), R.sparse_from_dense(B)))
    if path == "op_sd":
        return R.sparse_from_dense(A) @ B.copy()
    if path == "op_ss":
        return densify(R.sparse_from_dense(A) @ R.sparse_from_dense(B))
    if path == "tq":
        r = U.timesQsparse(*_comps(A), *_comps(B))
        return quaternion.as_quat_array(np.stack([np.asarray(x) for x in r], axis=-1))
    if path == "tq_sparse":
        a = [sparse.csr_matrix(x) for x in _comps(A)]
        b = [sparse.csr_matrix(x) for x in _comps(B)]
        r = U.timesQsparse(*a, *b)
        return quaternion.as_quat_array(np.stack([np.asarray(x) for x in r], axis=-1))
    raise ValueError(path)


def cases(tier, seed):
    out = []
    shp = gen.shapes3(3) if tier == "thorough" else (
        gen.shapes3(2) + [(3, 1, 2), (1, 3, 1), (2, 3, 2), (3, 3, 1), (1, 2, 3), (3, 2, 3)])
    for s in shp:
        for p in PATHS:
            if p == "dd_1d" and s[2] != 1:
                continue
            out.append({"kind": "basis", "cls": "basis:" + p, "shape": list(s), "path": p})
    out.append({"kind": "scalar_forms", "cls": "scalar_forms"})
    maxd = 8 if tier == "quick" else 24
    nrand = 3 if tier == "quick" else 30
    idx = 0
    for cls in gen.ENTRY_CLASSES:
        for rep in range(nrand):
            out.append({"kind": "random", "cls": "random:" + cls, "entry": cls, "maxd": maxd, "idx": idx, "seed": seed})
            idx += 1
    for sub in gen.AXES_SUBSETS:          # operands populated on each non-empty subset of the four components (other planes exactly empty)
        for rep in range(1 if tier == "quick" else 6):
            out.append({"kind": "random", "cls": "random:axes", "entry": "axes:" + sub, "maxd": maxd, "idx": idx, "seed": seed})
            idx += 1
    for k, cls in enumerate(["gauss", "int", "pure_imag", "sparse", "single_axis", "mixed_mag"] * (2 if tier == "quick" else 10)):
        out.append({"kind": "alias", "cls": "alias_forms", "entry": cls, "idx": k, "seed": seed})
    for k in range(10 if tier == "quick" else 60):
        out.append({"kind": "container_history", "cls": "container_history", "idx": k, "seed": seed})
    for k, cls in enumerate(["gauss", "sparse", "int", "sparse_dense_pattern", "pure_imag"] * (2 if tier == "quick" else 8)):
        out.append({"kind": "big", "cls": "big", "entry": cls, "idx": k, "seed": seed})
    for rep in range(24 if tier == "quick" else 400):
        out.append({"kind": "laws", "cls": "laws", "idx": rep, "maxd": 6 if tier == "quick" else 12, "seed": seed})
    for rep in range(3 if tier == "quick" else 12):
        out.append({"kind": "huge_logical", "cls": "huge_logical_shape", "idx": rep, "seed": seed})
    for rep in range(16 if tier == "quick" else 200):
        out.append({"kind": "storage_forms", "cls": "storage_forms", "idx": rep, "seed": seed})
    for rep in range(4 if tier == "quick" else 16):
        out.append({"kind": "layouts", "cls": "layouts", "idx": rep, "seed": seed})
    return out


def _unit(m, n, i, j, a):
    c = np.zeros((m, n, 4))
    c[i, j, a] = 1.0
    return quaternion.as_quat_array(c)


def run_case(spec, ctx, R):
    k = spec["kind"]
    if k == "basis":
        _basis(spec, ctx, R)
    elif k == "scalar_forms":
        _scalar_forms(spec, ctx, R)
    elif k == "big":
        _big(spec, ctx, R)
    elif k == "alias":
        _alias_forms(spec, ctx, R)
    elif k == "container_history":
        _container_history(spec, ctx, R)
    elif k == "random":
        _random(spec, ctx, R)
    elif k == "laws":
        _laws(spec, ctx, R)
    elif k == "layouts":
        _layouts(spec, ctx, R)
    elif k == "storage_forms":
        _storage_forms(spec, ctx, R)
    elif k == "huge_logical":
        _huge_logical(spec, ctx, R)
    else:
        raise ValueError(k)


def _huge_logical(spec, ctx, R):
    """Sparse operands whose PRODUCT has a logical shape of more than 2^31 (and 2^32) positions although only a handful of entries are stored
    (70000 x 2 times 2 x 70000, 70000 x 70000 squared - the size of the deblurring operators): every stored entry of the result is compared
    with a dictionary-of-keys Hamilton product; positions computed in 32-bit arithmetic wrap around."""
    U = R.utils
    rng = gen.rng_for(spec["seed"], "c01huge", spec["idx"])
    big = [70000, 66000, 131072][spec["idx"] % 3]
    inner = [2, big, 3][spec["idx"] % 3] if spec["idx"] % 3 != 1 else big
    shapeA, shapeB = (big, inner), (inner, big)
    nA = 6
    ra = rng.integers(0, shapeA[0], size=nA); ca = rng.integers(0, shapeA[1], size=nA)
    ra[0], ra[1] = shapeA[0] - 1, shapeA[0] - 5000          # rows near the end: row * ncols far above 2^32
    cb = rng.integers(0, shapeB[1], size=nA); cb[0], cb[1] = shapeB[1] - 100, 100
    rb = ca.copy()                                           # every stored entry of A meets one of B
    va = rng.integers(-3, 4, size=(nA, 4)).astype(float); va[va.sum(axis=1) == 0, 0] = 1.0
    vb = rng.integers(-3, 4, size=(nA, 4)).astype(float); vb[vb.sum(axis=1) == 0, 1] = 1.0

    def build(rows, cols, vals, shape):
        return U.SparseQuaternionMatrix(*[sparse.csr_matrix((vals[:, t], (rows, cols)), shape=shape) for t in range(4)], shape)
    A_, B_ = build(ra, ca, va, shapeA), build(rb, cb, vb, shapeB)
    ref = {}
    for i in range(nA):
        for j in range(nA):
            if ca[i] == rb[j]:
                q = np.quaternion(*va[i]) * np.quaternion(*vb[j])
                key = (int(ra[i]), int(cb[j]))
                ref[key] = ref.get(key, np.quaternion(0, 0, 0, 0)) + q
    ctx.distinct("huge_logical", shapeA, ra, ca, cb)
    for lab, call in (("ss", lambda: U.quat_matmat(A_, B_)), ("op_ss", lambda: A_ @ B_)):
        try:
            C_ = call()
            got = {}
            for t, comp in enumerate((C_.real, C_.i, C_.j, C_.k)):
                co = comp.tocoo()
                for r_, c_, v_ in zip(co.row, co.col, co.data):
                    if v_ != 0:
                        got.setdefault((int(r_), int(c_)), [0.0, 0.0, 0.0, 0.0])[t] += float(v_)
            keys = set(got) | {k_ for k_, q in ref.items() if q != np.quaternion(0, 0, 0, 0)}
            dev = max([float(np.max(np.abs(np.array(got.get(k_, [0, 0, 0, 0])) - np.array([ref.get(k_, np.quaternion(0, 0, 0, 0)).w, ref.get(k_, np.quaternion(0, 0, 0, 0)).x,
                                                                                                ref.get(k_, np.quaternion(0, 0, 0, 0)).y, ref.get(k_, np.quaternion(0, 0, 0, 0)).z])))) for k_ in keys] + [0.0])
            ok = tuple(C_.shape) == (shapeA[0], shapeB[1]) and dev <= 1e-12
        except Exception as e:
            ok, dev = False, repr(e)[:200]
        ctx.check("product_T2", ok, site=lab + ":logical_shape_above_2^31", detail={"shape": [shapeA, shapeB], "max_deviation_or_error": dev})
    ctx.hit("size:logical_shape_above_2^31")


def _storage_forms(spec, ctx, R):
    """One quaternion matrix held by SparseQuaternionMatrix containers whose four components arrive in every storage form scipy offers
    (gen.sparse_storage_forms: CSC/COO/LIL/DOK/BSR/DIA with junk padding, raw CSR with duplicate or cancelling duplicate entries, unsorted
    indices, stored zeros) and in a MIX of forms per component.  All of them denote the same matrix (form.toarray() == component exactly),
    so the Frobenius norm, ^H and the products must be those of that matrix."""
    U = R.utils
    rng = gen.rng_for(spec["seed"], "c01forms", spec["idx"])
    m, kk, n = (int(x) for x in rng.integers(1, 7, size=3))
    kind = ["int", "gauss", "banded", "int_sparse"][spec["idx"] % 4]
    if kind == "banded":
        A = gen.entries(rng, "int", m, kk)
        ii, jj = np.indices((m, kk))
        A = A * (np.abs(ii - jj) <= 1)
    elif kind == "int_sparse":
        A = gen.entries(rng, "int", m, kk) * (rng.random((m, kk)) < 0.5)
    else:
        A = gen.entries(rng, kind, m, kk)
    B = gen.entries(rng, "int" if kind != "gauss" else "gauss", kk, n)
    ctx.distinct("storage_forms", A, B)
    comps = _comps(A)
    per_comp = [dict(gen.sparse_storage_forms(rng, c)) for c in comps]
    labels = [l for l in per_comp[0] if all(l in d for d in per_comp)]
    ex = _fro_exact(A)
    tol = 8 * (m * kk + 4) * refq.EPS * ex + 1e-300
    SB = R.sparse_from_dense(B)
    combos = [(l, [l] * 4) for l in labels]
    for t in range(3):
        pick = [labels[int(x)] for x in rng.integers(0, len(labels), size=4)]
        combos.append(("mixed", pick))
    for lab, pick in combos:
        site = "storage:" + lab
        try:
            S = U.SparseQuaternionMatrix(*[per_comp[c][pick[c]].copy() for c in range(4)], A.shape)
            f1 = float(U.quat_frobenius_norm(S))
            ctx.check("fro_formats", abs(f1 - ex), tol, site=site, detail={"forms": pick, "got": f1, "exact": ex})
            ctx.check("fro_formats", bool(np.array_equal(refq.fa(densify(S)), refq.fa(A))), site=site + ":container_still_denotes_A")
            S = U.SparseQuaternionMatrix(*[per_comp[c][pick[c]].copy() for c in range(4)], A.shape)
            SH = U.quat_hermitian(S)
            ctx.check("herm_definition", bool(np.array_equal(refq.fa(densify(SH)), refq.fa(refq.herm(A)))), site=site)
            ctx.check("fro_herm", abs(float(U.quat_frobenius_norm(SH)) - ex), tol, site=site)
            S = U.SparseQuaternionMatrix(*[per_comp[c][pick[c]].copy() for c in range(4)], A.shape)
            _t2_check(ctx, "product_T2", "sd:" + site, U.quat_matmat(S, B.copy()), A, B)
            _t2_check(ctx, "product_T2", "op_sd:" + site, S @ B.copy(), A, B)
            S = U.SparseQuaternionMatrix(*[per_comp[c][pick[c]].copy() for c in range(4)], A.shape)
            _t2_check(ctx, "product_T2", "ss:" + site, densify(U.quat_matmat(S, SB)), A, B)
        except Exception as e:
            ctx.check("fro_formats", False, site=site, detail={"exception": repr(e)[:300], "forms": pick})
        ctx.hit("storage_form:" + lab)
    # the legacy component-form product on non-canonical sparse components
    for lab in ("csr_duplicates", "coo_duplicates", "csr_unsorted", "dia_padded", "csc"):
        if lab not in labels:
            continue
        try:
            r = U.timesQsparse(*[per_comp[c][lab].copy() for c in range(4)], *[sparse.csr_matrix(x) for x in _comps(B)])
            Cq = quaternion.as_quat_array(np.stack([np.asarray(x.toarray() if hasattr(x, "toarray") else x) for x in r], axis=-1))
            _t2_check(ctx, "product_T2", "tq_sparse:storage:" + lab, Cq, A, B)
        except Exception as e:
            ctx.check("product_T2", False, site="tq_sparse:storage:" + lab, detail={"exception": repr(e)[:300]})


def _basis(spec, ctx, R):
    m, kk, n = spec["shape"]
    path = spec["path"]
    first = True
    for i, l, l2, j in itertools.product(range(m), range(kk), range(kk), range(n)):
        for a, b in itertools.product(range(4), range(4)):
            A = _unit(m, kk, i, l, a)
            B = _unit(kk, n, l2, j, b)
            exp = np.zeros((m, n, 4))
            if l == l2:
                sgn, c = exactq.unit_product(a, b)
                exp[i, j, c] = float(sgn)
            ctx.distinct("basis", (m, kk, n), (i, l, l2, j, a, b), nontrivial=(l == l2))
            try:
                C = product(R, path, A, B)
                got = quaternion.as_float_array(C)
                ok = got.shape == exp.shape and np.array_equal(got, exp)
                det = None if ok else {"A": [i, l, a], "B": [l2, j, b], "got": got, "expected": exp}
            except Exception as e:
                ok, det = False, {"A": [i, l, a], "B": [l2, j, b], "exception": repr(e)}
            ctx.check("basis_exact", ok, site=path, detail=det)
            if first and l == l2 and a and b and a != b:
                ctx.sample({"path": path, "shape": [m, kk, n], "A": f"e{a}@({i},{l})", "B": f"e{b}@({l2},{j})",
                            "expected": f"{exactq.unit_product(a, b)[0]:+d}*e{exactq.unit_product(a, b)[1]}@({i},{j})"})
                first = False


def _scalar_forms(spec, ctx, R):
    """timesQsparse in the scalar x array and array x scalar forms the Krylov solver uses."""
    U = R.utils
    rng = gen.rng_for(0, "scalar_forms")
    for a in range(4):
        for b in range(4):
            for n in (1, 2, 3):
                for pos in range(n):
                    # scalar quaternion e_a times column vector with e_b at pos  (left scalar multiplication)
                    q = [1.0 if t == a else 0.0 for t in range(4)]
                    v = np.zeros((n, 1, 4))
                    v[pos, 0, b] = 1.0
                    vc = [np.ascontiguousarray(v[..., t]) for t in range(4)]
                    sgn, c = exactq.unit_product(a, b)
                    exp = np.zeros((n, 1, 4))
                    exp[pos, 0, c] = sgn
                    for form in ("scalar_x_array", "array_x_scalar"):
                        ctx.distinct("scalar", form, a, b, n, pos)
                        try:
                            if form == "scalar_x_array":
                                r = U.timesQsparse(*[np.float64(x) for x in q], *vc)
                                e = exp
                            else:
                                r = U.timesQsparse(*vc, *[np.float64(x) for x in q])
                                sg2, c2 = exactq.unit_product(b, a)
                                e = np.zeros((n, 1, 4))
                                e[pos, 0, c2] = sg2
                            got = np.stack([np.asarray(x, dtype=float) for x in r], axis=-1)
                            ok = got.shape == e.shape and np.array_equal(got, e)
                            det = None if ok else {"form": form, "a": a, "b": b, "got": got, "expected": e}
                        except Exception as ex:
                            ok, det = False, {"form": form, "exception": repr(ex)}
                        ctx.check("basis_exact", ok, site="tq_" + form, detail=det)
    # generic values: scalar q times vector / vector times scalar against the definition
    for rep in range(20):
        n = int(rng.integers(1, 6))
        q = refq.randq(rng, 1, 1)
        v = refq.randq(rng, n, 1)
        qc = [np.float64(x) for x in refq.fa(q)[0, 0]]
        vc = _comps(v)
        ctx.distinct("scalar_generic", q, v)
        r = U.timesQsparse(*qc, *vc)
        got = np.stack([np.asarray(x, dtype=float) for x in r], axis=-1)
        ref = refq.fa(q[0, 0] * v)
        bound = 64 * refq.EPS * (abs(q[0, 0]) * refq.absq(v)).max() + 1e-300
        ctx.check("product_T2", np.abs(got - ref).max(), bound, site="tq_scalar_x_array")
        r = U.timesQsparse(*vc, *qc)
        got = np.stack([np.asarray(x, dtype=float) for x in r], axis=-1)
        ref = refq.fa(v * q[0, 0])
        ctx.check("product_T2", np.abs(got - ref).max(), bound, site="tq_array_x_scalar")


def _t2_check(ctx, clause, site, C, A, B, tags=(), extra=None):
    """Compare computed product C with the exact / reference product of A and B."""
    m, kk = A.shape
    n = B.shape[1]
    got = quaternion.as_float_array(C)
    if got.shape != (m, n, 4):
        ctx.check(clause, False, site=site, tags=tags, detail={"shape": got.shape, "expected": (m, n, 4)})
        return
    if max(m, kk, n) <= 6:
        ref = exactq.to_float(exactq.matmul(exactq.to_frac(A), exactq.to_frac(B)))
        refkind = "exact_rational"
    else:
        ref = refq.fa(refq.matmul(A, B))
        refkind = "definition_float"
    gamma = 4.0 * (4 * kk + 2) * refq.EPS * (2.0 if refkind == "definition_float" else 1.0)
    bnd = gamma * exactq.abs_term_sum(A, B) + 1e-300
    dev = np.abs(got - ref).max(axis=-1)
    if not np.all(np.isfinite(got)):
        ctx.check(clause, False, site=site, tags=tags, detail={"nonfinite": True})
        return
    ratio = float((dev / bnd).max()) if dev.size else 0.0
    ctx.check(clause, ratio, 1.0, site=site, tags=tags,
              detail={"ref": refkind, "max_dev": float(dev.max()) if dev.size else 0.0, **(extra or {})})


def _all_paths(ctx, R, A, B, cls, shape, tags=()):
    m, kk, n = shape
    for p in PATHS:
        if p == "dd_1d" and n != 1:
            continue
        try:
            C = product(R, p, A, B)
        except Exception as e:
            ctx.check("product_T2", False, site=p, tags=list(tags), detail={"exception": repr(e), "shape": [m, kk, n], "class": cls})
            continue
        _t2_check(ctx, "product_T2", p, C, A, B, extra={"class": cls, "shape": [m, kk, n]})


# sizes beyond every plausible blocking / fast-path threshold (more than 16 / 32 / 64 rows, more than 1024 entries in an operand, more
# than 1000 stored entries, inner dimension above a block size), for every storage path
BIG_SHAPES = [(40, 30, 25), (1, 1500, 3), (64, 64, 8), (33, 17, 20), (17, 33, 1), (70, 3, 70), (3, 70, 3), (129, 9, 5), (20, 65, 2), (9, 9, 130)]


def _big(spec, ctx, R):
    rng = gen.rng_for(spec["seed"], "c01big", spec["idx"])
    m, kk, n = BIG_SHAPES[spec["idx"] % len(BIG_SHAPES)]
    cls = spec["entry"]
    if cls == "sparse_dense_pattern":        # density 80 %: "sparse" storage that is nearly full
        A = gen.entries(rng, "gauss", m, kk) * (rng.random((m, kk)) < 0.8)
        B = gen.entries(rng, "gauss", kk, n) * (rng.random((kk, n)) < 0.8)
    else:
        A = gen.entries(rng, cls, m, kk)
        B = gen.entries(rng, cls if rng.random() < 0.5 else "gauss", kk, n)
    ctx.distinct(A, B)
    ctx.hit("size:big_operands")
    _all_paths(ctx, R, A, B, cls, (m, kk, n))
    # norm / conjugate-transpose laws on the same operands in both storage formats
    U = R.utils
    for X, nm in ((A, "A"), (B, "B")):
        ref = refq.fro(X)
        for fmt in ("dense", "sparse"):
            Y = X if fmt == "dense" else R.sparse_from_dense(X)
            try:
                v = float(U.quat_frobenius_norm(Y))
                h = float(U.quat_frobenius_norm(U.quat_hermitian(Y)))
            except Exception as e:
                ctx.check("fro_formats", False, site=fmt + ":big", detail={"exception": repr(e)})
                continue
            ctx.check("fro_formats", abs(v - ref), 64 * refq.EPS * max(ref, 1e-300) * math.sqrt(X.size), site=fmt + ":big", detail={"shape": list(X.shape)})
            ctx.check("fro_herm", abs(h - ref), 64 * refq.EPS * max(ref, 1e-300) * math.sqrt(X.size), site=fmt + ":big", detail={"shape": list(X.shape)})


def _alias_forms(spec, ctx, R):
    """Argument relations instead of data: the same object as both factors, views of one buffer with other strides (transpose,
    reversed rows / columns), a result fed back as an operand, sparse operands built from the same dense array.  The caller's own
    objects are handed over (no copies), and every product is compared with the definition evaluated on independent copies."""
    U = R.utils
    rng = gen.rng_for(spec["seed"], "c01alias", spec["idx"])
    n = int(rng.integers(2, 7))
    A = gen.entries(rng, spec["entry"], n, n)
    ctx.distinct("alias", A)
    forms = {"A@A": (A, A), "A@A.T": (A, A.T), "A.T@A": (A.T, A), "A.T@A.T": (A.T, A.T), "A@A[::-1]": (A, A[::-1]), "A@A[:,::-1]": (A, A[:, ::-1]),
             "A@A[...]": (A, A[...]), "A[::-1]@A.T": (A[::-1], A.T), "A@swapaxes": (A, A.swapaxes(0, 1)), "A@np.transpose": (A, np.transpose(A))}
    for lab, (X, Y) in forms.items():
        ref_x, ref_y = np.array(X, copy=True), np.array(Y, copy=True)
        before = refq.fa(A).copy()
        for path, call in (("dd", lambda: U.quat_matmat(X, Y)),
                           ("sd", lambda: U.quat_matmat(R.sparse_from_dense(X), Y)),
                           ("ds", lambda: U.quat_matmat(X, R.sparse_from_dense(Y))),
                           ("ss", lambda: U.quat_matmat(R.sparse_from_dense(X), R.sparse_from_dense(Y)))):
            try:
                C = call()
                C = densify(C) if isinstance(C, U.SparseQuaternionMatrix) else C
            except Exception as e:
                ctx.check("product_T2", False, site=path + ":alias", tags=[lab], detail={"exception": repr(e), "form": lab})
                continue
            _t2_check(ctx, "product_T2", path + ":alias:" + lab, C, ref_x, ref_y, extra={"form": lab, "n": n})
        ctx.check("operands_unchanged", bool(np.array_equal(refq.fa(A), before)), site="alias:" + lab)
    # NEAR relations between the operands (not relations): B within a relative 1e-6 .. 1e-12 of A^H, of A^T, of A itself, componentwise - a
    # recomputed, rounded or nearly converged copy.  The product is A B, not A A^H.
    for d_ in (5e-9, 1e-6, 1e-12):
        pert = 1.0 + d_ * rng.uniform(-1.0, 1.0, size=(n, n, 4))
        for lab, Yb in (("near_A^H", refq.herm(A)), ("near_A^T", A.T.copy()), ("near_A", A.copy())):
            Y = refq.qa(refq.fa(Yb) * pert)
            for path, call in (("dd", lambda: U.quat_matmat(A, Y)), ("sd", lambda: U.quat_matmat(R.sparse_from_dense(A), Y)),
                               ("ss", lambda: U.quat_matmat(R.sparse_from_dense(A), R.sparse_from_dense(Y)))):
                try:
                    Cn = call()
                    Cn = densify(Cn) if isinstance(Cn, U.SparseQuaternionMatrix) else Cn
                    _t2_check(ctx, "product_T2", f"{path}:near_relation:{lab}", Cn, np.array(A, copy=True), Y, extra={"delta": d_, "n": n})
                except Exception as e:
                    ctx.check("product_T2", False, site=f"{path}:near_relation:{lab}", detail={"exception": repr(e)[:200]})
    ctx.hit("forms:near_relations")
    # the SAME SparseQuaternionMatrix object as both factors (squaring, powers), its own conjugate transpose, and a second container that shares
    # the component matrices: matrix squaring has no scalar shortcut (the component matrices do not commute)
    S = R.sparse_from_dense(A)
    S2 = U.SparseQuaternionMatrix(S.real, S.i, S.j, S.k, S.shape)
    SH = U.quat_hermitian(S)
    Ad, AH = np.array(A, copy=True), refq.herm(A)
    for lab, call, rx, ry in (("S@S:quat_matmat", lambda: U.quat_matmat(S, S), Ad, Ad), ("S@S:operator", lambda: S @ S, Ad, Ad),
                              ("S@shared_components", lambda: U.quat_matmat(S, S2), Ad, Ad), ("S@S^H", lambda: U.quat_matmat(S, SH), Ad, AH),
                              ("S^H@S", lambda: SH @ S, AH, Ad), ("(S@S)@S", lambda: U.quat_matmat(U.quat_matmat(S, S), S), refq.matmul(Ad, Ad), Ad)):
        try:
            Cs = call()
            Cs = densify(Cs) if isinstance(Cs, U.SparseQuaternionMatrix) else Cs
            _t2_check(ctx, "product_T2", "ss:alias:" + lab, Cs, rx, ry, extra={"form": lab, "n": n})
        except Exception as e:
            ctx.check("product_T2", False, site="ss:alias:" + lab, detail={"exception": repr(e)[:200]})
    ctx.check("operands_unchanged", bool(np.array_equal(refq.fa(densify(S)), refq.fa(Ad))), site="alias:sparse_container")
    ctx.hit("forms:aliased_operands")
    # a result fed back as an operand, three times
    P = A
    ref = np.array(A, copy=True)
    for k in range(3):
        P = U.quat_matmat(P, A)
        ref = refq.matmul(ref, np.array(A, copy=True))
    sc = max(refq.fro(ref), 1e-300)
    ctx.check("product_T2", refq.fro(P - ref) / sc, 64 * n * n * refq.EPS * 4, site="dd:result_fed_back", detail={"n": n})


def _container_history(spec, ctx, R):
    """Call histories over PERSISTENT operand objects: one dense array and one SparseQuaternionMatrix live across several products while
    the caller updates them in place (X *= 2, one entry set, stored sparse values rescaled).  Each product is compared with the
    definition evaluated on the operands' CURRENT contents."""
    U = R.utils
    rng = gen.rng_for(spec["seed"], "c01hist", spec["idx"])
    m, kk, n = (int(x) for x in rng.integers(2, 6, size=3))
    X = gen.entries(rng, "int", m, kk)
    Sd = gen.entries(rng, "int", kk, n) * (rng.random((kk, n)) < 0.7)
    S = R.sparse_from_dense(Sd)
    Y = gen.entries(rng, "int", n, m)
    T = R.sparse_from_dense(gen.entries(rng, "int", n, kk) * (rng.random((n, kk)) < 0.7))
    ctx.distinct("container_history", X, Sd)

    kept = []      # (label, result object, copy of its value when it was returned): a returned product stays what it was

    def step(label):
        Sn, Tn = densify(S), densify(T)
        for lab0, obj0, val0 in kept:
            cur = densify(obj0) if isinstance(obj0, U.SparseQuaternionMatrix) else obj0
            ctx.check("product_T2", bool(np.array_equal(refq.fa(cur), val0)), site="result_retained_from:" + lab0 + ":checked_at:" + label,
                      detail={"note": "a product returned earlier changed after later library calls"})
        for site, got, ref_a, ref_b in (("ds", lambda: U.quat_matmat(X, S), X, Sn), ("sd", lambda: U.quat_matmat(S, Y), Sn, Y),
                                         ("ss", lambda: U.quat_matmat(S, T), Sn, Tn), ("op_sd", lambda: S @ Y, Sn, Y), ("dd", lambda: U.quat_matmat(X, Sn), X, Sn)):
            try:
                C_raw = got()
                C = densify(C_raw) if isinstance(C_raw, U.SparseQuaternionMatrix) else C_raw
            except Exception as e:
                ctx.check("product_T2", False, site=site + ":history:" + label, detail={"exception": repr(e)[:200]})
                continue
            _t2_check(ctx, "product_T2", site + ":history:" + label, C, np.array(ref_a, copy=True), np.array(ref_b, copy=True), extra={"step": label})
            if len(kept) < 40:
                kept.append((site + ":" + label, C_raw, refq.fa(C).copy()))
        for Z, Zn, nm in ((S, Sn, "S"), (T, Tn, "T")):
            try:
                v = float(U.quat_frobenius_norm(Z))
                ctx.check("fro_formats", abs(v - refq.fro(Zn)), 64 * refq.EPS * max(refq.fro(Zn), 1e-300) * 4, site="sparse:history:" + label)
                Hs = U.quat_hermitian(Z)
                ctx.check("herm_involution", bool(np.array_equal(refq.fa(densify(Hs)), refq.fa(refq.herm(Zn)))), site="sparse:history:" + label)
            except Exception as e:
                ctx.check("fro_formats", False, site="sparse:history:" + label, detail={"exception": repr(e)[:200]})

    step("first")
    step("repeat")
    refq.fa(X)[...] *= 2.0
    step("dense_scaled_in_place")
    X[0, 0] = np.quaternion(1.0, -2.0, 0.5, 3.0)
    step("dense_entry_set")
    for comp in (S.real, S.k):
        if comp.nnz:
            comp.data[...] = comp.data * -3.0
    step("sparse_values_rescaled_in_place")
    if T.i.nnz:
        T.i.data[...] = 0.25
    refq.fa(Y)[...] = refq.fa(Y)[::-1].copy()
    step("second_sparse_and_dense_updated")
    ctx.hit("history:persistent_containers")


def _random(spec, ctx, R):
    rng = gen.rng_for(spec["seed"], "c01rand", spec["idx"])
    maxd = spec["maxd"]
    cls = spec["entry"]
    for rep in range(4):
        if rep == 0:
            m, kk, n = (int(x) for x in rng.integers(1, 7, size=3))      # exact-rational regime
        else:
            m, kk, n = (int(x) for x in rng.integers(1, maxd + 1, size=3))
        if rep == 3:
            n = 1
        A = gen.entries(rng, cls, m, kk)
        cls_b = cls if rng.random() < 0.7 else str(rng.choice(gen.ENTRY_CLASSES[:7]))
        if cls in ("huge", "tiny"):
            cls_b = cls
        B = gen.entries(rng, cls_b, kk, n)
        ctx.distinct(A, B, nontrivial=(cls != "zeros"))
        if rep == 0 and spec["idx"] % 3 == 0:
            ctx.sample({"class": cls, "shape": [m, kk, n], "A": A, "B": B})
        _all_paths(ctx, R, A, B, cls, (m, kk, n))


def _fro_exact(A):
    return math.sqrt(exactq.fro2(A))


def _laws(spec, ctx, R):
    U = R.utils
    rng = gen.rng_for(spec["seed"], "c01laws", spec["idx"])
    maxd = spec["maxd"]
    m, kk, n = (int(x) for x in rng.integers(1, maxd + 1, size=3))
    LAW_CLASSES = ["gauss", "int", "pure_imag", "sparse", "mixed_mag", "single_axis", "nonpos", "nonneg", "nonpos_sparse", "neg_identity",
                   "unit_identity", "one_nonzero"]
    cls = LAW_CLASSES[spec["idx"] % len(LAW_CLASSES)]
    if cls in gen.STRUCT_CLASSES:
        A = gen.structured(rng, cls, m, kk)
        B = gen.structured(rng, cls, kk, n)
    else:
        A = gen.entries(rng, cls, m, kk)
        B = gen.entries(rng, cls, kk, n)
    ctx.distinct("laws", A, B)
    SA, SB = R.sparse_from_dense(A), R.sparse_from_dense(B)
    # conjugate transpose: equals the oracle's, and is an involution, dense and sparse (T1)
    AH = U.quat_hermitian(A.copy())
    ctx.check("herm_definition", np.array_equal(refq.fa(AH), refq.fa(refq.herm(A))), site="dense")
    ctx.check("herm_involution", np.array_equal(refq.fa(U.quat_hermitian(AH)), refq.fa(A)), site="dense")
    SAH = U.quat_hermitian(SA)
    ctx.check("herm_definition", densify(SAH).shape == (kk, m) and tuple(SAH.shape) == (kk, m)
              and np.array_equal(refq.fa(densify(SAH)), refq.fa(refq.herm(A))), site="sparse")
    ctx.check("herm_involution", np.array_equal(refq.fa(densify(U.quat_hermitian(SAH))), refq.fa(A)), site="sparse")
    # product reversal on the four storage mixes (T2, two products)
    bound_mat = 2 * 4.0 * (4 * kk + 2) * refq.EPS * exactq.abs_term_sum(A, B) + 1e-300
    for mix, (X, Y) in {"dd": (A, B), "sd": (SA, B), "ds": (A, SB), "ss": (SA, SB)}.items():
        try:
            lhs = U.quat_hermitian(U.quat_matmat(X, Y))
            rhs = U.quat_matmat(U.quat_hermitian(Y), U.quat_hermitian(X))
            lhs = densify(lhs) if isinstance(lhs, U.SparseQuaternionMatrix) else lhs
            rhs = densify(rhs) if isinstance(rhs, U.SparseQuaternionMatrix) else rhs
            dev = np.abs(refq.fa(lhs) - refq.fa(rhs)).max(axis=-1)
            ratio = float((dev / bound_mat.T).max())
            ctx.check("product_reversal", ratio, 1.0, site=mix)
        except Exception as e:
            ctx.check("product_reversal", False, site=mix, detail={"exception": repr(e)})
    # Frobenius norm: formats agree with the exact value; invariant under ^H
    ex = _fro_exact(A)
    tol = 8 * (m * kk + 4) * refq.EPS * ex + 1e-300
    fd = float(U.quat_frobenius_norm(A.copy()))
    fs = float(U.quat_frobenius_norm(SA))
    ctx.check("fro_formats", abs(fd - ex), tol, site="dense")
    ctx.check("fro_formats", abs(fs - ex), tol, site="sparse")
    ctx.check("fro_herm", abs(float(U.quat_frobenius_norm(AH)) - ex), tol, site="dense")
    ctx.check("fro_herm", abs(float(U.quat_frobenius_norm(SAH)) - ex), tol, site="sparse")
    # unitary invariance with oracle-made unitary factors, products by the repository
    if cls != "mixed_mag":
        Ul = refq.rand_unitary(rng, m)
        Ur = refq.rand_unitary(rng, kk)
        tolu = 1e3 * (m + kk + 2) * refq.EPS * ex + 1e-300
        for mix in ("dd", "sd", "ss"):
            UA = product(R, mix, Ul, A)
            AU = product(R, mix, A, Ur)
            ctx.check("fro_unitary", abs(float(U.quat_frobenius_norm(UA)) - ex), tolu, site="left:" + mix)
            ctx.check("fro_unitary", abs(float(U.quat_frobenius_norm(AU)) - ex), tolu, site="right:" + mix)
    # sub-multiplicativity
    fb = float(U.quat_frobenius_norm(B.copy()))
    for mix in ("dd", "sd", "ds", "ss"):
        AB = product(R, mix, A, B)
        fab = float(U.quat_frobenius_norm(AB))
        ctx.check("fro_submult", fab, fd * fb * (1 + 8 * (m * kk + kk * n + m * n + 8) * refq.EPS) + 1e-300, site=mix)


def _layouts(spec, ctx, R):
    """Same product on different memory layouts of the operands must give the same result bit-for-bit as on C-contiguous copies."""
    rng = gen.rng_for(spec["seed"], "c01lay", spec["idx"])
    m, kk, n = (int(x) for x in rng.integers(1, 6, size=3))
    A = gen.entries(rng, "gauss", m, kk)
    B = gen.entries(rng, "gauss", kk, n)
    ctx.distinct("layout", A, B)
    for la in gen.LAYOUTS:
        for lb in ("C", "F", "strided", "readonly"):
            A2, B2 = gen.layout(A, la), gen.layout(B, lb)
            for p in ("dd", "sd", "tq"):
                try:
                    C = product(R, p, A2, B2)
                except Exception as e:
                    ctx.check("layout_independent", False, site=f"{p}:{la}/{lb}", detail={"exception": repr(e)})
                    continue
                _t2_check(ctx, "layout_independent", f"{p}", C, A, B, extra={"layouts": [la, lb]})
