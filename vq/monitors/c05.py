"""C05 Q-SVD (DESIGN.md section 7, C05)."""
from __future__ import annotations

import numpy as np

from .. import gen
from ..oracle import embed, refq

ID = "C05"
LEVEL = "exploration"
RULE = ("A = U diag(s) V^H is built from oracle-made unitary factors and a prescribed singular-value multiplicity pattern "
        "(simple, k-fold non-zero repeat, all equal, several zeros, mixed; unitary / identity / zero matrices; integer and "
        "sparse patterns whose multiplicities are measured by the oracle), for tall, square, wide, 1xn and nx1 shapes, scalings "
        "1e-8..1e8 and five memory layouts; classical_qsvd_full and classical_qsvd(R) for every R = 1..min(m,n) are judged. "
        "Mechanism tags come from the ground truth: repeated_nonzero_sv, left_nullity>=2 (m-rank >= 2), right_nullity>=2. "
        "distinct = input digest; non-trivial = min(m,n) >= 2 or rank >= 1")
ASSUMPTIONS = ["backward-error constant c = 1e3; singular values compared with LAPACK gesdd on the complex adjoint and with the generator's ground truth",
               "a pair of singular values counts as repeated when it agrees to 1e-9 relative (generator ground truth: exactly equal); "
               "clusters with relative gap 1e-3 count as simple"]
SHARDS = {"quick": 8, "thorough": 16}
DECIDING = ["values_true", "values_sorted_nonneg", "U_orthonormal", "V_orthonormal", "U_orthonormal_range", "V_orthonormal_range", "reconstruction", "eckart_young",
            "truncated_consistent_with_full", "shapes"]
MUST_REACH = ["shape:extreme_aspect", "pattern:simple", "pattern:repeat", "pattern:zeros", "shape:tall", "shape:wide", "shape:square"]

C = 1e3
GAP_CLAUSES = {"U_orthonormal", "V_orthonormal", "U_orthonormal_range", "V_orthonormal_range", "reconstruction", "eckart_young"}

PATTERNS = ["simple", "geometric", "graded_mid", "graded_wide", "near_tie", "cluster", "repeat2", "repeat3", "all_equal", "zeros1", "zeros2", "zeros_many", "rank1",
            "mixed_repeat_zero", "zero_matrix", "unitary", "identity", "scaled_unitary"]


def cases(tier, seed):
    out = []
    maxd = 6 if tier == "quick" else 12
    draws = 10 if tier == "quick" else 300
    idx = 0
    for pat in PATTERNS:
        for d in range(draws * 3):
            out.append({"kind": "spectrum", "cls": "spectrum:" + pat, "pat": pat, "idx": idx, "seed": seed, "maxd": maxd})
            idx += 1
    for cls in ("int", "sparse", "pure_imag", "single_axis", "gauss", "neg_real", "nonpos", "nonneg", "sum_zero", "nonpos_sparse", "mixed_mag"):
        for d in range(draws * 2 if cls in ("int", "sparse", "pure_imag", "single_axis", "gauss") else draws):
            out.append({"kind": "entries", "cls": "entries:" + cls, "entry": cls, "idx": idx, "seed": seed, "maxd": maxd})
            idx += 1
    # size ladder: dimensions above every plausible algorithm-switch threshold (8 / 16 / 24 / 32), every truncation rank
    for dims in ([(25, 25), (30, 48), (40, 32), (26, 27), (33, 17), (17, 33)] if tier == "quick" else
                 [(a, b) for a in (9, 17, 25, 33, 40, 64) for b in (9, 16, 26, 33, 48, 65)]):
        out.append({"kind": "spectrum", "cls": "spectrum:" + PATTERNS[idx % len(PATTERNS)], "pat": PATTERNS[idx % len(PATTERNS)], "idx": idx,
                    "seed": seed, "maxd": maxd, "dims": list(dims)})
        idx += 1
        out.append({"kind": "entries", "cls": "entries:gauss", "entry": "gauss", "idx": idx, "seed": seed, "maxd": maxd, "dims": list(dims)})
        idx += 1
    for d in range(12 if tier == "quick" else 80):
        out.append({"kind": "history", "cls": "history", "idx": idx, "seed": seed})
        idx += 1
    for d in range(192 if tier == "quick" else 960):
        out.append({"kind": "singvec", "cls": "singvec", "idx": d, "seed": seed})
    for d in range(draws * 2):
        out.append({"kind": "layout", "cls": "layout", "idx": idx, "seed": seed, "maxd": maxd})
        idx += 1
    # extreme aspect ratios (m > 4n or n > 4m) x every multiplicity pattern x narrow dimension 1..4
    for pat in PATTERNS:
        if pat in ("unitary", "identity", "scaled_unitary"):
            continue
        for a in (1, 2, 3, 4):
            for tall in (True, False):
                for d in range(1 if tier == "quick" else 6):
                    out.append({"kind": "extreme", "cls": "extreme:" + pat, "pat": pat, "a": a, "tall": tall, "idx": idx, "seed": seed})
                    idx += 1
    # structured column / row dependencies (duplicated, right-multiple, zero column at every position), incl. extreme aspect ratios
    for cs in ("dup_column", "dep_column", "zero_column", "dep_row", "dep_sum_column"):
        for d in range(10 if tier == "quick" else 120):
            out.append({"kind": "colstruct", "cls": "colstruct:" + cs, "cs": cs, "idx": idx, "seed": seed, "maxd": maxd})
            idx += 1
    # canonical witnesses of the open known findings: fixed seeds, independent of VERIF_SEED
    for name in ("repeated_unitary", "left_nullity", "right_nullity", "clustered"):
        for d in range(30):
            out.append({"kind": "canonical", "cls": "canonical:" + name, "name": name, "idx": d, "seed": 0})
    for d in range(draws * 2):
        out.append({"kind": "scaled", "cls": "scaled", "idx": idx, "seed": seed, "maxd": maxd})
        idx += 1
    return out


def run_case(spec, ctx, R):
    {"spectrum": _spectrum, "entries": _entries, "layout": _layout, "scaled": _scaled,
     "canonical": _canonical, "extreme": _extreme, "colstruct": _colstruct, "history": _history, "singvec": _singvec}[spec["kind"]](spec, ctx, R)


def _singvec(spec, ctx, R):
    """Full-rank matrices with simple, well separated singular values whose singular VECTORS stand in a special relation to a fixed vector:
    the dominant left (or right) singular vector is the normalised all-ones vector (or a coordinate vector) exactly or up to a relative 1e-9 ..
    1e-13, so that every other singular vector is orthogonal to that vector exactly up to round-off or up to that distance (centred and
    nearly centred data, a decoupled first coordinate).  Any post-processing keyed on a functional of the singular vectors - a gauge / sign
    convention from their entry sums or first entries - meets its degenerate and NEAR-degenerate case here."""
    rng = gen.rng_for(spec["seed"], "c05sv", spec["idx"])
    m, n = [(6, 6), (5, 5), (4, 4), (7, 5), (5, 8), (3, 3), (8, 8), (2, 2)][spec["idx"] % 8]
    N = min(m, n)
    s_true = np.sort(np.array([9.0, 6.5, 4.0, 2.5, 1.5, 0.7, 0.45, 0.3][:N]) * (1.0 + 0.05 * rng.random(N)))[::-1]
    delta = [0.0, 1e-9, 1e-10, 1e-11, 1e-12, 1e-13][(spec["idx"] // 8) % 6]
    target = ["ones", "e1"][(spec["idx"] // 48) % 2]
    side = ["left", "right"][(spec["idx"] // 96) % 2]

    def special_unitary(k):
        w = np.ones(k) if target == "ones" else np.eye(k)[0].copy()
        w = w + delta * rng.standard_normal(k)
        w /= np.linalg.norm(w)
        x = w.copy(); x[0] -= 1.0
        H = np.eye(k) - (2.0 * np.outer(x, x) / (x @ x) if x @ x > 0 else 0.0)     # real reflector with H e_1 = w
        inner = np.zeros((k, k, 4)); inner[0, 0, 0] = 1.0
        if k > 1:
            inner[1:, 1:] = refq.fa(refq.rand_unitary(rng, k - 1))
        Hq = np.zeros((k, k, 4)); Hq[..., 0] = H
        return refq.matmul(refq.qa(Hq), refq.qa(inner))

    Uq = special_unitary(m) if side == "left" else refq.rand_unitary(rng, m)
    Vq = special_unitary(n) if side == "right" else refq.rand_unitary(rng, n)
    A = refq.matmul(refq.matmul(Uq, refq.diagq(s_true, m, n)), refq.herm(Vq))
    tags, rank = truth_tags(s_true, m, n)
    _note_reach(ctx, m, n, tags, rank, N)
    ctx.hit("singular_vectors:special_relation" if delta == 0.0 else "singular_vectors:near_special_relation")
    ctx.distinct(A, nontrivial=True)
    judge(ctx, R, A, s_true, f"singvec:{target}:{side}:delta={delta:g}")


def _history(spec, ctx, R):
    """One buffer, many calls: the caller's own object, the same object updated in place, views that keep its address."""
    rng = gen.rng_for(spec["seed"], "c05hist", spec["idx"])
    m, n = [(4, 4), (5, 3), (3, 5), (6, 6), (2, 2), (6, 4)][spec["idx"] % 6]
    A = refq.randq(rng, m, n)
    ctx.distinct("history", A)
    for lab, X in gen.history_forms(A):
        s_true = embed.svals(X)
        if ambiguous(s_true):
            continue
        judge(ctx, R, X, s_true, "history:" + lab)
    ctx.hit("history:one_buffer_many_calls")


def _shape(rng, maxd, idx):
    """Shapes cycle through tall / wide / square / row / column, with |m-n| >= 2 regularly; every 9th case has an extreme
    aspect ratio (m > 4n or n > 4m, up to 10x)."""
    if idx % 9 == 4:
        a = int(rng.integers(1, 5))
        b = int(rng.integers(4 * a + 1, 10 * a + 2))
        return (b, a) if (idx // 9) % 2 == 0 else (a, b)
    k = idx % 7
    if k == 0:
        m = n = int(rng.integers(1, maxd + 1))
    elif k == 1:
        n = int(rng.integers(1, maxd - 1)); m = int(rng.integers(n + 2, maxd + 1)) if n + 2 <= maxd else n + 2
    elif k == 2:
        m = int(rng.integers(1, maxd - 1)); n = int(rng.integers(m + 2, maxd + 1)) if m + 2 <= maxd else m + 2
    elif k == 3:
        m, n = 1, int(rng.integers(1, maxd + 1))
    elif k == 4:
        m, n = int(rng.integers(1, maxd + 1)), 1
    elif k == 5:
        n = int(rng.integers(1, maxd)); m = n + 1
    else:
        m = int(rng.integers(1, maxd)); n = m + 1
    return m, n


def _pattern_svals(rng, pat, N):
    """Non-increasing list of N >= 1 singular values with the multiplicity pattern (ground truth)."""
    if pat == "simple":
        s = gen.spectrum("simple", N, rng, 10.0)
    elif pat == "geometric":
        s = gen.spectrum("geometric", N, rng, float(rng.choice([1e2, 1e4])))
    elif pat == "near_tie":
        # two (or three) DISTINCT values at a relative distance 1e-6 .. 1e-10 inside an otherwise simple spectrum: a near-coincidence, not a
        # coincidence - every value must come back as itself (a comparison with a loose default tolerance would merge them)
        s = gen.spectrum("simple", N, rng, 10.0)
        if N >= 2:
            j = int(rng.integers(0, N - 1))
            s[j + 1] = s[j] * (1.0 - float(rng.choice([1e-6, 1e-8, 1e-10, 3e-6])))
            if j + 2 < N and rng.random() < 0.4:
                s[j + 2] = s[j + 1] * (1.0 - 1e-7)
            s = np.sort(s)[::-1]
    elif pat == "graded_mid":
        # condition 1e5 .. 3e6: far from rank-deficient, but squared (Gram-matrix shortcuts) it eats half of the digits
        s = gen.spectrum("geometric", N, rng, float(rng.choice([1e5, 1e6, 3e6])))
    elif pat == "graded_wide":
        # well separated values over 8 .. 12 orders of magnitude: the small ones are legitimate data, not round-off
        s = gen.spectrum("geometric", N, rng, float(rng.choice([1e8, 1e10, 1e12])))
    elif pat == "cluster":
        s = gen.spectrum("cluster", N, rng)
    elif pat == "repeat2":
        s = gen.spectrum("repeat2", N, rng)
    elif pat == "repeat3":
        base = list(gen.spectrum("simple", max(1, N - 2), rng, 6.0))
        j = int(rng.integers(0, len(base)))
        s = np.sort(np.array(base + [base[j]] * min(2, N - len(base))))[::-1]
    elif pat == "all_equal":
        s = np.full(N, float(rng.choice([0.5, 1.0, 3.0])))
    elif pat == "zeros1":
        s = np.concatenate([gen.spectrum("simple", N - 1, rng, 5.0), [0.0]]) if N >= 1 else np.zeros(0)
    elif pat == "zeros2":
        k = min(2, N)
        s = np.concatenate([gen.spectrum("simple", N - k, rng, 5.0), np.zeros(k)])
    elif pat == "zeros_many":
        r = int(rng.integers(0, max(1, N - 1)))
        s = np.concatenate([gen.spectrum("simple", r, rng, 5.0), np.zeros(N - r)])
    elif pat == "rank1":
        s = np.concatenate([[2.5], np.zeros(N - 1)])
    elif pat == "mixed_repeat_zero":
        s = np.array(([3.0, 3.0, 1.0] + [0.0] * max(0, N - 3))[:N])
    else:
        raise ValueError(pat)
    return np.asarray(s, dtype=float)[:N]


def truth_tags(s, m, n):
    """Mechanism tags from the ground-truth singular values (length min(m,n), non-increasing)."""
    s = np.asarray(s, dtype=float)
    smax = s[0] if len(s) and s[0] > 0 else 1.0
    thr = 1e-12 * smax
    nz = s[s > thr]
    rank = len(nz)
    tags = []
    if any(abs(nz[i] - nz[i + 1]) <= 1e-9 * smax for i in range(len(nz) - 1)):
        tags.append("repeated_nonzero_sv")
    ext = list(nz) + ([0.0] if max(m, n) > rank else [])     # a null space on either side acts as the singular value 0
    gaps = [abs(ext[i] - ext[i + 1]) / smax for i in range(len(ext) - 1)]
    # gaps <= 1e-9 between two non-zero values are "repeated" (tagged above); the gap between the smallest non-zero value and an
    # existing null space always counts, however small: a singular value of 1e-10 ||A|| next to a null space is a cluster with 0
    gaps = [g for i, g in enumerate(gaps) if g > 1e-9 or (i == len(gaps) - 1 and len(ext) > len(nz))]
    if gaps and min(gaps) < 1e-2:
        tags.append(f"relgap={min(gaps):.3e}")
    if m - rank >= 2:
        tags.append("left_nullity>=2")
    if n - rank >= 2:
        tags.append("right_nullity>=2")
    return tags, rank


def ambiguous(s):
    """True if the multiplicity pattern is not clear-cut (neither equal to 1e-9 nor separated by 1e-5 relative)."""
    s = np.asarray(s, dtype=float)
    if not len(s) or s[0] == 0:
        return False
    for i in range(len(s) - 1):
        gap = abs(s[i] - s[i + 1]) / s[0]
        if 1e-9 < gap < 1e-5:
            return True
    return any(0 < v / s[0] < 1e-10 and v / s[0] > 1e-14 for v in s)


def judge(ctx, R, A, s_true, site, extra_tags=()):
    Dq = R.qsvd
    m, n = A.shape
    N = min(m, n)
    tags, rank = truth_tags(s_true, m, n)
    relgap = None
    for t in list(tags):
        if t.startswith("relgap="):
            relgap = float(t[7:])
            tags.remove(t)
    tags = list(tags) + list(extra_tags)
    _check = ctx.check

    class _G:
        """Clauses that depend on the separation of the singular subspaces: for clustered (not repeated) singular values
        the routine loses orthogonality in proportion to eps/relgap (same mechanism as F-C05-a).  A deviation above the
        backward-stable bound but below the graded bound carries the mechanism tag clustered_nonzero_sv; anything above
        the graded bound does not, and is a new violation."""
        @staticmethod
        def check(clause, value, bound=None, *, site="", tags=(), detail=None):
            tg = list(tags)
            if (relgap is not None and bound is not None and clause in GAP_CLAUSES and np.isfinite(value)
                    and bound < value <= bound / relgap):
                tg.append("clustered_nonzero_sv")
            return _check(clause, value, bound, site=site, tags=tg, detail=detail)
    ctx_g = _G
    nrm = refq.fro(A)
    eps = refq.EPS
    floor = 1e-300
    A0 = refq.fa(A).copy()
    try:
        U, s, V = Dq.classical_qsvd_full(A)
    except Exception as e:
        ctx.check("unexpected_exception", False, site=site + ":full", tags=tags, detail={"exception": repr(e), "shape": [m, n]})
        return
    ctx.check("input_unchanged", np.array_equal(refq.fa(A), A0), site=site + ":full", tags=tags)
    s = np.asarray(s)
    ok_shape = U.shape == (m, m) and V.shape == (n, n) and s.shape == (N,)
    ctx.check("shapes", ok_shape, site=site + ":full", tags=tags, detail={"U": U.shape, "V": V.shape, "s": s.shape})
    if not ok_shape:
        return
    s_or = embed.svals(A)
    vb = C * eps * max(m, n) * max(s_or[0] if N else 0.0, floor) + floor
    ctx.check("values_true", float(np.max(np.abs(s - s_or))) if N else 0.0, vb, site=site + ":full", tags=tags,
              detail={"s": s, "oracle": s_or})
    ctx.check("values_true", float(np.max(np.abs(s - np.asarray(s_true)))) if N else 0.0,
              C * eps * max(m, n) * max(float(s_true[0]) if N else 0.0, floor) * 10 + floor,
              site=site + ":full:ground_truth", tags=tags, detail={"s": s, "truth": s_true})
    ctx.check("values_sorted_nonneg", bool(np.all(s >= 0) and np.all(np.diff(s) <= 0) and np.all(np.isfinite(s))),
              site=site + ":full", tags=tags, detail={"s": s})
    ob = C * eps * max(m, n)
    ctx_g.check("U_orthonormal", refq.orth_err(U), ob * max(1, m) ** 0.5, site=site + ":full", tags=tags)
    ctx_g.check("V_orthonormal", refq.orth_err(V), ob * max(1, n) ** 0.5, site=site + ":full", tags=tags)
    if rank >= 1:
        # the columns that carry the non-zero singular values (range part) judged separately from the null-space part
        ctx_g.check("U_orthonormal_range", refq.orth_err(U[:, :rank]), ob * rank ** 0.5, site=site + ":full", tags=tags)
        ctx_g.check("V_orthonormal_range", refq.orth_err(V[:, :rank]), ob * rank ** 0.5, site=site + ":full", tags=tags)
    rec = refq.matmul(refq.matmul(U, refq.diagq(s, m, n)), refq.herm(V))
    rb = C * eps * max(m, n) * max(nrm, floor) + floor
    ctx_g.check("reconstruction", refq.fro(rec - A), rb, site=site + ":full", tags=tags, detail={"shape": [m, n], "normA": nrm})
    # truncations
    for Rk in range(1, N + 1):
        st = f"{site}:R"
        try:
            # the truncation rank in the integer types a caller may hold it in (Python int, numpy signed / unsigned integers)
            Rform = [int, np.int64, int, np.int32, np.intp, int, np.uint8][(Rk + m + 2 * n) % 7]
            ctx.hit("callform:R_as_" + Rform.__name__)
            Ut, stt, Vt = Dq.classical_qsvd(A, Rform(Rk))
        except Exception as e:
            ctx.check("unexpected_exception", False, site=st, tags=tags, detail={"exception": repr(e), "R": Rk})
            continue
        stt = np.asarray(stt)
        okt = Ut.shape == (m, Rk) and Vt.shape == (n, Rk) and stt.shape == (Rk,)
        ctx.check("shapes", okt, site=st, tags=tags, detail={"U": Ut.shape, "V": Vt.shape, "s": stt.shape, "R": Rk})
        if not okt:
            continue
        # the truncation carries the R largest values of the full decomposition (vectors may legitimately differ, e.g. by a
        # different but valid algorithm for the truncated form, so only the values are compared)
        ctx.check("truncated_consistent_with_full", float(np.max(np.abs(stt - s[:Rk]))), vb, site=st, tags=tags, detail={"R": Rk})
        ctx_g.check("U_orthonormal" + ("_range" if Rk <= rank else ""), refq.orth_err(Ut), ob * max(1, Rk) ** 0.5, site=st, tags=tags,
                  detail={"R": Rk})
        ctx_g.check("V_orthonormal" + ("_range" if Rk <= rank else ""), refq.orth_err(Vt), ob * max(1, Rk) ** 0.5, site=st, tags=tags,
                  detail={"R": Rk})
        approx = refq.matmul(Ut * stt[None, :], refq.herm(Vt))
        err2 = refq.fro(A - approx) ** 2
        tail2 = float(np.sum(s_or[Rk:] ** 2))
        ctx_g.check("eckart_young", abs(err2 - tail2), C * eps * max(m, n) * max(nrm * nrm, floor) + floor, site=st, tags=tags,
                  detail={"R": Rk, "err2": err2, "tail2": tail2})


def _note_reach(ctx, m, n, tags, rank, N):
    ctx.hit("shape:" + ("tall" if m > n else "wide" if m < n else "square"))
    ctx.hit("pattern:" + ("repeat" if "repeated_nonzero_sv" in tags else "simple"))
    if rank < N:
        ctx.hit("pattern:zeros")
    for t in tags:
        ctx.hit("tag:" + ("clustered(relgap<1e-2)" if t.startswith("relgap=") else t))


def _spectrum(spec, ctx, R):
    rng = gen.rng_for(spec["seed"], "c05spec", spec["idx"])
    pat = spec["pat"]
    m, n = _shape(rng, spec["maxd"], spec["idx"])
    if "dims" in spec:
        m, n = spec["dims"]
        ctx.hit("size:ladder")
    if pat in ("unitary", "identity", "scaled_unitary"):
        m = n = max(m, n)
        if pat == "identity":
            A = refq.eye(n)
            s_true = np.ones(n)
        else:
            c = 1.0 if pat == "unitary" else float(rng.choice([1e-3, 7.0]))
            A = refq.rand_unitary(rng, n) * c
            s_true = np.full(n, c)
    elif pat == "zero_matrix":
        A = refq.zeros(m, n)
        s_true = np.zeros(min(m, n))
    else:
        s_true = _pattern_svals(rng, pat, min(m, n))
        A, _, _ = refq.with_singular_values(rng, m, n, s_true)
    tags, rank = truth_tags(s_true, m, n)
    _note_reach(ctx, m, n, tags, rank, min(m, n))
    ctx.distinct(A, nontrivial=(min(m, n) >= 2 or rank >= 1))
    judge(ctx, R, A, s_true, "prescribed")
    if spec["idx"] % 17 == 0:
        ctx.sample({"pattern": pat, "shape": [m, n], "s_true": s_true, "tags": tags, "A": A})


def _entries(spec, ctx, R):
    rng = gen.rng_for(spec["seed"], "c05ent", spec["idx"])
    m, n = _shape(rng, spec["maxd"], spec["idx"])
    if "dims" in spec:
        m, n = spec["dims"]
    A = gen.entries(rng, spec["entry"], m, n)
    s_true = embed.svals(A)
    if ambiguous(s_true):
        ctx.skip("values_true", "ambiguous multiplicity pattern")
        return
    tags, rank = truth_tags(s_true, m, n)
    _note_reach(ctx, m, n, tags, rank, min(m, n))
    ctx.distinct(A, nontrivial=rank >= 1)
    judge(ctx, R, A, s_true, "entries", extra_tags=[])


def _layout(spec, ctx, R):
    rng = gen.rng_for(spec["seed"], "c05lay", spec["idx"])
    m, n = _shape(rng, spec["maxd"], spec["idx"])
    s_true = gen.spectrum("simple", min(m, n), rng, 8.0)
    A, _, _ = refq.with_singular_values(rng, m, n, s_true)
    lay = gen.LAYOUTS[spec["idx"] % len(gen.LAYOUTS)]
    A = gen.layout(A, lay)
    tags, rank = truth_tags(s_true, m, n)
    _note_reach(ctx, m, n, tags, rank, min(m, n))
    ctx.distinct(lay, A)
    judge(ctx, R, A, s_true, "layout:" + lay)


def _scaled(spec, ctx, R):
    rng = gen.rng_for(spec["seed"], "c05sc", spec["idx"])
    m, n = _shape(rng, spec["maxd"], spec["idx"])
    c = float(rng.choice([1e-14, 1e-8, 1e-4, 1e4, 1e8, 1e14]))
    s_true = gen.spectrum("simple", min(m, n), rng, 8.0) * c
    A, _, _ = refq.with_singular_values(rng, m, n, s_true)
    tags, rank = truth_tags(s_true, m, n)
    _note_reach(ctx, m, n, tags, rank, min(m, n))
    ctx.distinct(A)
    judge(ctx, R, A, s_true, "scaled")


def _canonical(spec, ctx, R):
    """Fixed-seed inputs exhibiting the open known findings (independent of VERIF_SEED)."""
    rng = gen.rng_for(0, "c05canon", spec["name"], spec["idx"])
    name = spec["name"]
    if name == "repeated_unitary":
        n = 2 + spec["idx"] % 3
        A = refq.rand_unitary(rng, n)
        s_true = np.ones(n)
    elif name == "clustered":
        n = 4 + spec["idx"] % 3
        s_true = gen.spectrum("cluster", n, rng)
        A, _, _ = refq.with_singular_values(rng, n, n, s_true)
    elif name == "left_nullity":
        m, n = 4 + spec["idx"] % 3, 1 + spec["idx"] % 2
        s_true = gen.spectrum("simple", n, rng, 5.0)
        A, _, _ = refq.with_singular_values(rng, m, n, s_true)
    else:
        m, n = 1 + spec["idx"] % 2, 4 + spec["idx"] % 3
        s_true = gen.spectrum("simple", m, rng, 5.0)
        A, _, _ = refq.with_singular_values(rng, m, n, s_true)
    tags, rank = truth_tags(s_true, *A.shape)
    _note_reach(ctx, A.shape[0], A.shape[1], tags, rank, min(A.shape))
    ctx.distinct(A)
    judge(ctx, R, A, s_true, "prescribed")


def _extreme(spec, ctx, R):
    rng = gen.rng_for(spec["seed"], "c05ext", spec["idx"])
    a = spec["a"]
    b = int(rng.integers(4 * a + 1, 8 * a + 3))
    m, n = (b, a) if spec["tall"] else (a, b)
    pat = spec["pat"]
    if pat == "zero_matrix":
        A, s_true = refq.zeros(m, n), np.zeros(a)
    else:
        s_true = _pattern_svals(rng, pat, a)
        A, _, _ = refq.with_singular_values(rng, m, n, s_true)
    tags, rank = truth_tags(s_true, m, n)
    _note_reach(ctx, m, n, tags, rank, a)
    ctx.hit("shape:extreme_aspect")
    ctx.distinct(A, nontrivial=rank >= 1)
    judge(ctx, R, A, s_true, "prescribed")


def _colstruct(spec, ctx, R):
    rng = gen.rng_for(spec["seed"], "c05cs", spec["idx"])
    if spec["idx"] % 2:
        m, n = _shape(rng, spec["maxd"], spec["idx"])
    else:
        n = int(rng.integers(2, 5)); m = int(rng.integers(4 * n + 1, 6 * n + 2))      # very tall
        if spec["idx"] % 4 == 0 and spec["cs"] == "dep_row":
            m, n = n, m
    A = refq.randq(rng, m, n)
    cs = spec["cs"]
    if n >= 2 and cs in ("dup_column", "dep_column", "zero_column", "dep_sum_column"):
        j = int(rng.integers(0, n - 1))                 # source column
        k = int(rng.integers(j + 1, n))                 # affected column; k < n - 1 whenever possible (a non-last dependent column)
        if n >= 3 and rng.random() < 0.7:
            k = int(rng.integers(1, n - 1)); j = int(rng.integers(0, k))
        if cs == "dup_column":
            A[:, k] = A[:, j]
        elif cs == "dep_column":
            A[:, k] = A[:, j] * refq.randq(rng, 1, 1)[0, 0]
        elif cs == "zero_column":
            A[:, k] = np.quaternion(0, 0, 0, 0)
        else:
            A[:, k] = A[:, j] * refq.randq(rng, 1, 1)[0, 0] + (A[:, 0] * refq.randq(rng, 1, 1)[0, 0] if j > 0 else A[:, j] * 0.5)
    elif m >= 2 and cs == "dep_row":
        i = int(rng.integers(1, m))
        A[i, :] = refq.randq(rng, 1, 1)[0, 0] * A[0, :]
    s_true = embed.svals(A)
    if ambiguous(s_true):
        ctx.skip("values_true", "ambiguous multiplicity pattern")
        return
    # numerically zero singular values are zeros of the ground truth
    s_clean = np.where(s_true <= 1e-12 * max(s_true[0], 1e-300), 0.0, s_true)
    tags, rank = truth_tags(s_clean, m, n)
    _note_reach(ctx, m, n, tags, rank, min(m, n))
    ctx.distinct(A, nontrivial=rank >= 1)
    judge(ctx, R, A, s_clean, "colstruct:" + cs)
