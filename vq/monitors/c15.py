"""C15 Matrix norms (DESIGN.md section 7, C15)."""
from __future__ import annotations

import math

import numpy as np
import quaternion
from scipy import sparse

from .. import gen
from ..oracle import embed, exactq, refq

ID = "C15"
LEVEL = "exploration"
RULE = ("sampled: 9 entry classes x shapes (rectangular included) for every norm; each returned float is compared with the "
        "definition evaluated independently (exact rational root-sum-of-squares; column/row sums of moduli; sigma_1 of the "
        "complex adjoint); homogeneity with real and quaternion scalars (left and right); triangle inequality and "
        "sub-multiplicativity on generic, adversarial (B=-A+delta) and rank-1 pairs; norm equivalences with rank known by "
        "construction; all Frobenius entry points on the same data; unknown ord spellings must raise. distinct = input digest; "
        "non-trivial = non-zero matrix")
ASSUMPTIONS = ["LAPACK gesdd on the complex adjoint is the reference for the spectral norm",
               "magnitudes within 1e+-140"]
SHARDS = {"quick": 4, "thorough": 12}
DECIDING = ["ord_spellings", "fro_definition", "fro_entry_points", "norm1_definition", "norminf_definition", "norm2_definition",
            "layout_independent", "homogeneity", "triangle", "submultiplicative", "equivalence", "unknown_ord_rejected"]

UNKNOWN_ORDS = ["nuc", 3, -1, 0, "1", "2", "FRO", "f", -np.inf, 1.5, "one"]


def _comps(A):
    c = quaternion.as_float_array(A)
    return [np.ascontiguousarray(c[..., k]) for k in range(4)]


def _coo_dup(x, rng):
    """COO matrix holding x as the SUM of two stored contributions per entry (finite-element style assembly: duplicates are not merged)."""
    x = np.asarray(x, dtype=float)
    r, c = np.nonzero(np.ones_like(x))
    part = np.round(x[r, c] * 0.5, 3)
    return sparse.coo_matrix((np.concatenate([part, x[r, c] - part]), (np.concatenate([r, r]), np.concatenate([c, c]))), shape=x.shape)


def _csr_explicit_zeros(x):
    m = sparse.csr_matrix(np.ones_like(np.asarray(x, dtype=float)))
    m.data[:] = np.asarray(x, dtype=float).ravel()          # every position stored, including the zeros
    return m


def cases(tier, seed):
    out = []
    nrep = 4 if tier == "quick" else 48
    idx = 0
    for cls in gen.ENTRY_CLASSES:
        for rep in range(nrep):
            out.append({"kind": "defs", "cls": "defs:" + cls, "entry": cls, "idx": idx, "seed": seed,
                        "maxd": 8 if tier == "quick" else 30})
            idx += 1
    for cls in gen.STRUCT_CLASSES:
        for rep in range(2 if tier == "quick" else 24):
            out.append({"kind": "defs", "cls": "defs:" + cls, "entry": cls, "idx": idx, "seed": seed, "struct": True,
                        "maxd": 6 if tier == "quick" else 14})
            idx += 1
    # size ladder beyond plausible thresholds for "cheaper method for large input" switches (above 16 / 32, n a multiple of 16)
    lad = [(17, 17), (20, 9), (9, 20), (33, 33), (16, 16), (24, 24), (1, 40), (40, 1)] if tier == "quick" else \
          [(a, b) for a in (1, 9, 16, 17, 24, 32, 33, 40, 64, 65) for b in (1, 9, 16, 17, 33, 40)]
    for k, dims in enumerate(lad):
        for cls in ("gauss", "nonpos", "sparse"):
            out.append({"kind": "defs", "cls": "defs:" + cls, "entry": cls, "idx": idx, "seed": seed, "maxd": 8, "dims": list(dims)})
            idx += 1
        for cls in gen.STRUCT_CLASSES:
            if tier == "quick" and (k + sum(map(ord, cls))) % 3:
                continue
            out.append({"kind": "defs", "cls": "defs:" + cls, "entry": cls, "idx": idx, "seed": seed, "struct": True, "maxd": 8, "dims": list(dims)})
            idx += 1
    for dims in ([(3, 40), (2, 30), (40, 3), (4, 64), (30, 2), (5, 33)] if tier == "quick" else [(3, 40), (2, 30), (40, 3), (4, 64), (30, 2), (5, 33), (2, 9), (9, 2), (8, 65), (65, 8)]):
        for cls in ("spike_vs_flat", "spike_vs_flat_T"):
            out.append({"kind": "defs", "cls": "defs:" + cls, "entry": cls, "idx": idx, "seed": seed, "struct": True, "maxd": 8, "dims": list(dims)})
            idx += 1
    for dims in ([(8, 8), (9, 12), (12, 9), (16, 16), (8, 20), (3, 5)] if tier == "quick" else [(8, 8), (9, 12), (12, 9), (16, 16), (8, 20), (3, 5), (20, 8), (17, 33), (33, 17), (32, 32), (5, 3)]):
        for cls in ("mixed_type_lines", "mixed_type_lines_T"):
            for rep in range(2 if tier == "quick" else 6):
                out.append({"kind": "defs", "cls": "defs:" + cls, "entry": cls, "idx": idx, "seed": seed, "struct": True, "maxd": 8, "dims": list(dims)})
                idx += 1
    for rep in range(24 if tier == "quick" else 600):
        out.append({"kind": "ineq", "cls": "ineq", "idx": rep, "seed": seed, "maxd": 6 if tier == "quick" else 12})
    out.append({"kind": "ords", "cls": "ords", "seed": seed})
    return out


def run_case(spec, ctx, R):
    {"defs": _defs, "ineq": _ineq, "ords": _ords}[spec["kind"]](spec, ctx, R)


def norms(R, A):
    U = R.utils
    return {"fro": float(U.matrix_norm(A.copy())), "1": float(U.matrix_norm(A.copy(), 1)),
            "inf": float(U.matrix_norm(A.copy(), np.inf)), "2": float(U.matrix_norm(A.copy(), 2))}


def _oracle_norms(A):
    mod = refq.absq(A)
    ex = math.sqrt(exactq.fro2(A)) if A.size <= 400 else refq.fro(A)
    return {"fro": ex, "1": float(mod.sum(axis=0).max()) if A.size else 0.0,
            "inf": float(mod.sum(axis=1).max()) if A.size else 0.0,
            "2": float(embed.svals(A)[0]) if A.size else 0.0}


def _defs(spec, ctx, R):
    U, T = R.utils, R.tensor
    rng = gen.rng_for(spec["seed"], "c15defs", spec["idx"])
    cls = spec["entry"]
    m, n = (int(x) for x in rng.integers(1, spec["maxd"] + 1, size=2))
    if spec["idx"] % 7 == 0:
        m = 1
    if spec["idx"] % 11 == 0:
        n = 1
    if "dims" in spec:
        m, n = spec["dims"]
        ctx.hit("size:ladder")
    if spec.get("struct"):
        if gen.is_square_class(cls):
            n = m
        A = gen.structured(rng, cls, m, n)
    else:
        A = gen.entries(rng, cls, m, n)
    ctx.distinct(A, nontrivial=(cls != "zeros"))
    if spec["idx"] % 9 == 0:
        ctx.sample({"class": cls, "shape": [m, n], "A": A})
    O = _oracle_norms(A)
    tolf = 8 * (m * n + 4) * refq.EPS * O["fro"] + 1e-300
    # Frobenius: all entry points
    fe = {
        "matrix_norm(None)": lambda: U.matrix_norm(A.copy()),
        "matrix_norm('fro')": lambda: U.matrix_norm(A.copy(), "fro"),
        "matrix_norm('F')": lambda: U.matrix_norm(A.copy(), "F"),
        "quat_frobenius_norm:dense": lambda: U.quat_frobenius_norm(A.copy()),
        "quat_frobenius_norm:sparse": lambda: U.quat_frobenius_norm(R.sparse_from_dense(A)),
        "matrix_norm:sparse": lambda: U.matrix_norm(R.sparse_from_dense(A), "fro"),
        "normQ": lambda: U.normQ(A.copy()),
        "normQsparse:ndarray": lambda: U.normQsparse(*_comps(A)),
        "normQsparse:scipy": lambda: U.normQsparse(*[sparse.csr_matrix(x) for x in _comps(A)]),
        "normQsparse:scipy_csc": lambda: U.normQsparse(*[sparse.csc_matrix(x) for x in _comps(A)]),
        "normQsparse:scipy_coo_duplicates": lambda: U.normQsparse(*[_coo_dup(x, rng) for x in _comps(A)]),
        "normQsparse:scipy_lil": lambda: U.normQsparse(*[sparse.lil_matrix(x) for x in _comps(A)]),
        "normQsparse:scipy_explicit_zeros": lambda: U.normQsparse(*[_csr_explicit_zeros(x) for x in _comps(A)]),
        "quat_frobenius_norm:sparse_coo_duplicates": lambda: U.quat_frobenius_norm(U.SparseQuaternionMatrix(*[_coo_dup(x, rng) for x in _comps(A)], A.shape)),
        "tensor_frobenius_norm": lambda: T.tensor_frobenius_norm(A.copy()),
        "tensor_frobenius_norm:3d": lambda: T.tensor_frobenius_norm(A.copy().reshape(m, n, 1)),
    }
    # every scipy storage form of the four components (DIA with junk padding, raw CSR with duplicate / cancelling duplicate entries, unsorted
    # indices, BSR, DOK ...): all denote the same matrix, for the component-form entry point and for the container
    forms = [dict(gen.sparse_storage_forms(rng, x)) for x in _comps(A)]
    for lab in [l for l in forms[0] if all(l in d for d in forms)]:
        fe["normQsparse:storage:" + lab] = (lambda lab=lab: U.normQsparse(*[d[lab].copy() for d in forms]))
        fe["matrix_norm:sparse:storage:" + lab] = (lambda lab=lab: U.matrix_norm(U.SparseQuaternionMatrix(*[d[lab].copy() for d in forms], A.shape), "fro"))
    vals = {}
    for name, f in fe.items():
        try:
            v = float(f())
            vals[name] = v
            ctx.check("fro_definition", abs(v - O["fro"]), tolf, site=name, detail={"class": cls, "shape": [m, n]})
        except Exception as e:
            ctx.check("fro_definition", False, site=name, detail={"exception": repr(e)})
    if vals:
        ctx.check("fro_entry_points", max(vals.values()) - min(vals.values()), 2 * tolf, site="all",
                  detail={k: v for k, v in vals.items()})
    if n == 1:
        v = float(U.normQsparse(*[x[:, 0] for x in _comps(A)]))
        ctx.check("fro_definition", abs(v - O["fro"]), tolf, site="normQsparse:1d")
    # entrywise moduli
    ea = T.tensor_entrywise_abs(A.copy())
    ctx.check("entrywise_abs", ea.shape == (m, n) and np.abs(ea - refq.absq(A)).max() <= 4 * refq.EPS * (refq.absq(A).max() + 1e-300),
              site="tensor_entrywise_abs")
    # induced norms
    for name, f, key, dim in [
        ("induced_matrix_norm_1", lambda: U.induced_matrix_norm_1(A.copy()), "1", m),
        ("matrix_norm(1)", lambda: U.matrix_norm(A.copy(), 1), "1", m),
        ("matrix_norm(1.0)", lambda: U.matrix_norm(A.copy(), 1.0), "1", m),
        ("induced_matrix_norm_inf", lambda: U.induced_matrix_norm_inf(A.copy()), "inf", n),
        ("matrix_norm(np.inf)", lambda: U.matrix_norm(A.copy(), np.inf), "inf", n),
        ("matrix_norm('inf')", lambda: U.matrix_norm(A.copy(), "inf"), "inf", n),
    ]:
        clause = "norm1_definition" if key == "1" else "norminf_definition"
        try:
            v = float(f())
            ctx.check(clause, abs(v - O[key]), 8 * (dim + 4) * refq.EPS * O[key] + 1e-300, site=name,
                      detail={"class": cls, "shape": [m, n], "got": v, "oracle": O[key]})
        except Exception as e:
            ctx.check(clause, False, site=name, detail={"exception": repr(e)})
    # spectral norm
    for name, f in [("spectral_norm_2", lambda: U.spectral_norm_2(A.copy())), ("matrix_norm(2)", lambda: U.matrix_norm(A.copy(), 2))]:
        try:
            v = float(f())
            ctx.check("norm2_definition", abs(v - O["2"]), 1e3 * max(m, n) * refq.EPS * O["2"] + 1e-300, site=name,
                      detail={"class": cls, "shape": [m, n], "got": v, "oracle": O["2"]})
        except Exception as e:
            ctx.check("norm2_definition", False, site=name, detail={"exception": repr(e)})
    # the same matrix in other memory layouts (Fortran order, strided, transposed view, read-only, the view returned by the
    # library's own conjugate transpose): every norm is a function of the VALUES, so it must match the definition there too
    for lay in gen.LAYOUTS[1:] + ["herm_of_herm"]:
        try:
            if lay == "herm_of_herm":
                Al = U.quat_hermitian(U.quat_hermitian(A.copy()))
            else:
                Al = gen.layout(A, lay)
            got = {"fro": float(U.matrix_norm(Al)), "1": float(U.matrix_norm(Al, 1)), "inf": float(U.matrix_norm(Al, np.inf)),
                   "2": float(U.matrix_norm(Al, 2)), "fro_tensor": float(T.tensor_frobenius_norm(Al)), "1_direct": float(U.induced_matrix_norm_1(Al)),
                   "inf_direct": float(U.induced_matrix_norm_inf(Al))}
        except Exception as e:
            ctx.check("layout_independent", False, site="layout:" + lay, detail={"exception": repr(e), "shape": [m, n]})
            continue
        worst, wk = 0.0, None
        for k2, v in got.items():
            key = k2.split("_")[0]
            b = (1e3 * max(m, n) if key == "2" else 16 * (m * n + 8)) * refq.EPS * O[key] + 1e-300
            if abs(v - O[key]) / b > worst:
                worst, wk = abs(v - O[key]) / b, k2
        ctx.check("layout_independent", worst, 1.0, site="layout:" + lay, detail={"worst_norm": wk, "values": got, "oracle": O, "shape": [m, n]})
    # transpose duality on the library's own conjugate transpose: ||A^H||_1 = ||A||_inf
    AH = U.quat_hermitian(A.copy())
    ctx.check("layout_independent", abs(float(U.matrix_norm(AH, 1)) - O["inf"]), 16 * (m * n + 8) * refq.EPS * O["inf"] + 1e-300, site="norm1(A^H)=norminf(A)")
    ctx.check("layout_independent", abs(float(U.matrix_norm(AH, np.inf)) - O["1"]), 16 * (m * n + 8) * refq.EPS * O["1"] + 1e-300, site="norminf(A^H)=norm1(A)")
    # homogeneity (real scalar, quaternion scalar on the left and on the right)
    if cls not in ("huge", "tiny"):
        N0 = norms(R, A)
        al = float(rng.choice([-2.5, 0.125, 3.0, -1.0, 0.0]))
        q = refq.randq(rng, 1, 1)[0, 0]
        for lab, B, fac in [("real", al * A, abs(al)), ("quat_left", q * A, abs(q)), ("quat_right", A * q, abs(q))]:
            NB = norms(R, B)
            for key in NB:
                slack = (1e3 * max(m, n) if key == "2" else 16 * (m * n + 8)) * refq.EPS
                ctx.check("homogeneity", abs(NB[key] - fac * N0[key]), slack * fac * N0[key] + 1e-300, site=f"{key}:{lab}")


def _pair(rng, kind, m, n):
    if kind == "generic":
        return refq.randq(rng, m, n), refq.randq(rng, m, n)
    if kind == "cancel":
        A = refq.randq(rng, m, n)
        return A, -A + 1e-6 * refq.randq(rng, m, n)
    if kind == "rank1_equal":     # B = 2A: equality in the triangle inequality
        u, v = refq.randq(rng, m, 1), refq.randq(rng, 1, n)
        A = refq.matmul(u, v)
        return A, 2.0 * A
    if kind == "int":
        return gen.entries(rng, "int", m, n), gen.entries(rng, "int", m, n)
    raise ValueError(kind)


def _ineq(spec, ctx, R):
    rng = gen.rng_for(spec["seed"], "c15ineq", spec["idx"])
    maxd = spec["maxd"]
    m, k, n = (int(x) for x in rng.integers(1, maxd + 1, size=3))
    kind = ["generic", "cancel", "rank1_equal", "int"][spec["idx"] % 4]
    A, B = _pair(rng, kind, m, k)
    ctx.distinct(kind, A, B)
    NA, NB, NS = norms(R, A), norms(R, B), norms(R, A + B)
    for key in NA:
        slack = (1e3 * max(m, k) if key == "2" else 16 * (m * k + 8)) * refq.EPS
        ctx.check("triangle", NS[key], (NA[key] + NB[key]) * (1 + slack) + 1e-300, site=key + ":" + kind)
    # sub-multiplicativity with a conformable third matrix (product by the oracle)
    C = refq.randq(rng, k, n) if kind != "int" else gen.entries(rng, "int", k, n)
    NC = norms(R, C)
    NP = norms(R, refq.matmul(A, C))
    for key in NA:
        slack = (1e3 * max(m, k, n) if key == "2" else 16 * (m * k + k * n + m * n + 8)) * refq.EPS
        ctx.check("submultiplicative", NP[key], NA[key] * NC[key] * (1 + slack) + 1e-300, site=key + ":" + kind)
    # equivalences on structured matrices (rank bounded by min(m,k))
    scls = gen.STRUCT_CLASSES[spec["idx"] % len(gen.STRUCT_CLASSES)]
    S = gen.structured(rng, scls, m, m if gen.is_square_class(scls) else k)
    ctx.distinct("struct", S)
    NSt = norms(R, S)
    sls = 1e3 * max(S.shape) * refq.EPS
    ctx.check("equivalence", NSt["2"], NSt["fro"] * (1 + sls) + 1e-300, site="2<=F", tags=[scls])
    ctx.check("equivalence", NSt["fro"], math.sqrt(min(S.shape)) * NSt["2"] * (1 + sls) + 1e-300, site="F<=sqrt(min(m,n))*2", tags=[scls])
    ctx.check("equivalence", NSt["2"] ** 2, NSt["1"] * NSt["inf"] * (1 + sls) + 1e-300, site="2^2<=1*inf", tags=[scls])
    # equivalences with rank known by construction
    r = int(rng.integers(1, min(m, k) + 1))
    s = np.sort(rng.random(r) + 0.2)[::-1]
    if spec["idx"] % 3 == 0:
        s[:] = s[0]                      # all equal: ||A||_F = sqrt(r) ||A||_2 exactly
    M, _, _ = refq.with_singular_values(rng, m, k, s)
    ctx.distinct("rank", M)
    NM = norms(R, M)
    sl = 1e3 * max(m, k) * refq.EPS
    ctx.check("equivalence", NM["2"], NM["fro"] * (1 + sl) + 1e-300, site="2<=F")
    ctx.check("equivalence", NM["fro"], math.sqrt(r) * NM["2"] * (1 + sl) + 1e-300, site="F<=sqrt(rank)*2", detail={"rank": r})
    ctx.check("equivalence", NM["2"] ** 2, NM["1"] * NM["inf"] * (1 + sl) + 1e-300, site="2^2<=1*inf")
    ctx.check("norm2_definition", abs(NM["2"] - s[0]), 1e3 * max(m, k) * refq.EPS * s[0], site="matrix_norm(2):prescribed_spectrum")
    if spec["idx"] % 8 == 0:
        ctx.sample({"pair_kind": kind, "shape": [m, k, n], "rank_of_M": r, "norms_M": NM})


def _ords(spec, ctx, R):
    U = R.utils
    rng = gen.rng_for(spec["seed"], "c15ords")
    for m, n in [(1, 1), (2, 3), (3, 2), (4, 4)]:
        A = refq.randq(rng, m, n)
        before = refq.fa(A).copy()
        for o in UNKNOWN_ORDS:
            ctx.distinct("ord", repr(o), m, n)
            try:
                v = U.matrix_norm(A, o)
                ctx.check("unknown_ord_rejected", False, site="matrix_norm", tags=[f"ord={o!r}"], detail={"ord": repr(o), "returned": repr(v)})
            except Exception as e:
                ctx.check("unknown_ord_rejected", True, site="matrix_norm")
        # every accepted spelling of an order, in the types a caller may hold it in, must give the norm of that order
        O = _oracle_norms(A)
        spell = {"inf": [np.inf, float("inf"), math.inf, np.float64("inf"), np.float32("inf"), "inf", np.str_("inf"), float("1e999")],
                 "1": [1, np.int64(1), np.int32(1), np.uint8(1), 1.0, np.float64(1.0)],
                 "2": [2, np.int64(2), np.int16(2), 2.0, np.float32(2.0)],
                 "fro": [None, "fro", "F", np.str_("fro"), np.str_("F")]}
        for key, forms in spell.items():
            for o in forms:
                for kw in (False, True):
                    ctx.distinct("ord_form", key, repr(o), type(o).__name__, kw, m, n)
                    try:
                        v = float(U.matrix_norm(A, ord=o) if kw else U.matrix_norm(A, o))
                    except Exception as e:
                        ctx.check("ord_spellings", False, site=f"matrix_norm({key})", tags=[f"ord={type(o).__name__}:{o!r}"], detail={"exception": repr(e)})
                        continue
                    ctx.check("ord_spellings", abs(v - O[key]), 64 * (m * n + 4) * refq.EPS * max(O[key], 1e-300) + 1e-300, site=f"matrix_norm({key})",
                              tags=[f"ord={type(o).__name__}:{o!r}"], detail={"returned": v, "oracle": O[key]})
        try:
            v = float(U.matrix_norm(A))
            ctx.check("ord_spellings", abs(v - O["fro"]), 64 * (m * n + 4) * refq.EPS * max(O["fro"], 1e-300) + 1e-300, site="matrix_norm(omitted)")
        except Exception as e:
            ctx.check("ord_spellings", False, site="matrix_norm(omitted)", detail={"exception": repr(e)})
        # the spectral norm of exactly (power of two) scaled matrices whose SQUARED entries under- or overflow: the largest singular
        # value itself is an ordinary double there (the other norms are not judged at these scales: they square the entries)
        s_ref = float(embed.svals(A)[0])
        for p2 in (-560, -530, -500, 400, 510, 520):
            try:
                with np.errstate(all="ignore"):
                    v = float(U.matrix_norm(A * 2.0 ** p2, 2)) * 2.0 ** (-p2)
                    v2 = float(U.spectral_norm_2(A * 2.0 ** p2)) * 2.0 ** (-p2)
            except Exception as e:
                ctx.check("norm2_definition", False, site="matrix_norm(2):scaled_2^%d" % p2, tags=["extreme_scale"], detail={"exception": repr(e)[:200]})
                continue
            ctx.hit("scale:pow2_extreme_norm2")
            ctx.check("norm2_definition", max(abs(v - s_ref), abs(v2 - s_ref)), 64 * (m * n + 4) * refq.EPS * max(s_ref, 1e-300) + 1e-300,
                      site="matrix_norm(2):scaled_2^%d" % p2, tags=["extreme_scale"], detail={"returned": v, "oracle": s_ref})
        ctx.check("args_unchanged", np.array_equal(before, refq.fa(A)), site="matrix_norm")
    ctx.sample({"unknown_ords": [repr(o) for o in UNKNOWN_ORDS]})
