"""C06 Quaternion QR (DESIGN.md section 7, C06)."""
from __future__ import annotations

import numpy as np

from .. import gen
from ..oracle import embed, refq

ID = "C06"
LEVEL = "exploration"
RULE = ("qr_qua on tall / square / wide / 1xn / nx1 shapes: full rank (Gaussian, prescribed spectrum up to kappa 1e8, integer, "
        "pure-imaginary, single-axis, scaled 1e+-8, layouts), rank-deficient (product of oracle-made factors, rank 0..min-1), "
        "zero / duplicated / right-dependent columns, matrices whose real QR meets exact zeros on the diagonal; each (Q,R) is "
        "judged for shape, orthonormal columns, upper-triangular/trapezoidal R (entries below the diagonal negligible) and "
        "||QR-A||. Mechanism tags from the construction: wide, rank_deficient (oracle rank < min(m,n)), zero_column. "
        "distinct = input digest; non-trivial = m*n >= 2 and A != 0")
ASSUMPTIONS = ["backward-error constant c = 1e3: ||QR-A||_F <= c*max(m,n)*eps*||A||_F, ||Q^H Q - I||_F <= c*max(m,n)*eps, "
               "below-diagonal entries of R <= c*max(m,n)*eps*||A||_F",
               "rank-deficiency tag uses the oracle rank at relative threshold 1e-10 (generated cases are either exactly deficient or kappa <= 1e8)"]
SHARDS = {"quick": 8, "thorough": 16}
DECIDING = ["shapes", "Q_orthonormal", "R_upper", "reconstruction", "input_unchanged"]
MUST_REACH = ["shape:tall", "shape:wide", "shape:square", "rank:deficient", "rank:full", "rank:zero_columns_generic", "rank:dependent_last_column_only"]

C = 1e3

FULL = ["graded_last_pivot", "graded_columns", "graded_rows", "gauss", "spectrum", "int", "pure_imag", "single_axis", "scaled_small", "scaled_big", "layout", "real_only", "unit_identity",
        "upper_tri", "diag", "herm_psd", "herm_indef", "unitary", "lower_tri", "rank1_plus_identity"]
DEF = ["lowrank", "zero_column", "zero_column_negzero", "zero_column_masked", "dup_column", "dep_column", "zero_matrix", "zero_row", "rank1", "int_lowrank", "leading_deficient"]


def cases(tier, seed):
    out = []
    maxd = 7 if tier == "quick" else 18
    rep = 40 if tier == "quick" else 600
    idx = 0
    for cls in FULL:
        for r in range(rep):
            out.append({"kind": "full", "cls": "full:" + cls, "c": cls, "idx": idx, "seed": seed, "maxd": maxd})
            idx += 1
    # size ladder: dimensions beyond plausible algorithm-switch thresholds (real embedding above 64 / 100 / 128 rows or columns)
    for dims in ([(17, 17), (26, 27), (12, 30), (1, 32), (30, 12), (33, 9), (9, 33)] if tier == "quick" else
                 [(a, b) for a in (1, 9, 17, 26, 33, 40, 64) for b in (1, 9, 16, 27, 33, 48, 65)]):
        for cls in FULL:
            out.append({"kind": "full", "cls": "full:" + cls, "c": cls, "idx": idx, "seed": seed, "maxd": maxd, "dims": list(dims)})
            idx += 1
    # graded rows containing a pair of rows with bit-identical norms (one the negative of the other), tall shapes
    for r in range(40 if tier == "quick" else 300):
        out.append({"kind": "full", "cls": "full:graded_rows", "c": "graded_rows", "idx": 4 * idx, "seed": seed, "maxd": maxd,
                    "dims": [[3, 2], [5, 3], [7, 3], [4, 1], [6, 5], [9, 4]][r % 6], "twin": True})
        idx += 1
    for r in range(12 if tier == "quick" else 80):
        out.append({"kind": "history", "cls": "history", "idx": idx, "seed": seed})
        idx += 1
    for cls in DEF:
        for r in range(rep):
            out.append({"kind": "deficient", "cls": "deficient:" + cls, "c": cls, "idx": idx, "seed": seed, "maxd": maxd})
            idx += 1
    # an exactly zero column stored as -0.0 at an INTERIOR position (columns before it with mixed signs, columns after it so that its row of R
    # has entries): the sign normalisation meets pivots that are exactly zero with either sign bit; only 10-30 % of such inputs leave mixed
    # sign bits behind, hence many cheap cases
    for r in range(400 if tier == "quick" else 3000):
        out.append({"kind": "deficient", "cls": "deficient:zero_column_negzero_interior", "c": "zero_column_negzero_interior", "idx": idx, "seed": seed, "maxd": maxd})
        idx += 1
    for r in range(8 if tier == "quick" else 40):
        out.append({"kind": "threads", "cls": "concurrent_callers", "idx": idx, "seed": seed})
        idx += 1
    for r in range(4000 if tier == "quick" else 30000):
        out.append({"kind": "deplast", "cls": "dependent_last_column", "idx": idx, "seed": seed})
        idx += 1
    for d in range(40):
        out.append({"kind": "canonical", "cls": "canonical:rank_deficient", "idx": d, "seed": 0})
        out.append({"kind": "canonical", "cls": "canonical:ill_conditioned", "idx": d, "seed": 0, "ill": True})
        out.append({"kind": "canonical", "cls": "canonical:leading_deficient", "idx": d, "seed": 0, "lead": True})
    return out


def run_case(spec, ctx, R):
    {"full": _full, "deficient": _deficient, "canonical": _canonical, "history": _history, "deplast": _deplast, "threads": _threads}[spec["kind"]](spec, ctx, R)


def _threads(spec, ctx, R):
    """Concurrent callers: four threads factor their own well-conditioned matrices of the SAME shape at the same time (LAPACK releases the
    interpreter lock, the conversion loops are long); every result is judged by the property's clauses for its own input.  A factorisation
    that parks intermediate data in storage shared between calls mixes two callers' matrices."""
    import threading
    rng = gen.rng_for(spec["seed"], "c06thr", spec["idx"])
    m, n = [(16, 16), (12, 20), (20, 12), (8, 8)][spec["idx"] % 4]
    mats = [[refq.randq(rng, m, n) for _ in range(5)] for _ in range(4)]
    outs = [[None] * 5 for _ in range(4)]
    barrier = threading.Barrier(4)

    def worker(t):
        barrier.wait()
        for k in range(5):
            try:
                outs[t][k] = R.qsvd.qr_qua(mats[t][k])
            except Exception as e:
                outs[t][k] = e
    ths = [threading.Thread(target=worker, args=(t,)) for t in range(4)]
    for th in ths:
        th.start()
    for th in ths:
        th.join()
    eps = refq.EPS
    for t in range(4):
        for k in range(5):
            A = mats[t][k]
            o = outs[t][k]
            ctx.distinct("threads", A)
            if isinstance(o, Exception) or o is None:
                ctx.check("unexpected_exception", False, site="qr_qua:four_threads", detail={"exception": repr(o)[:200]})
                continue
            Q, Rr = o
            N = min(m, n)
            ok = Q.shape == (m, N) and Rr.shape == (N, n)
            ctx.check("shapes", ok, site="qr_qua:four_threads", tags=["gauss", "concurrent"])
            if ok:
                ctx.check("Q_orthonormal", refq.orth_err(Q), C * max(m, n) * eps * max(1.0, N ** 0.5), site="qr_qua:four_threads", tags=["gauss", "concurrent"])
                ctx.check("reconstruction", refq.fro(refq.matmul(Q, Rr) - A), C * max(m, n) * eps * refq.fro(A), site="qr_qua:four_threads", tags=["gauss", "concurrent"])
    ctx.hit("workload:four_concurrent_callers")


def _deplast(spec, ctx, R):
    """Rank n-1 with the dependency ONLY at the last pivot: a tall or square matrix whose first n-1 columns are independent and well
    conditioned and whose last column is a copy / right multiple / sum of earlier ones.  Generator ground truth, no numerical rank analysis:
    the real QR of the embedding is unique (after the sign normalisation) on the first 4(n-1) real columns, and ANY real unit vector
    orthogonal to those is quaternion-orthogonal to the first n-1 columns of Q, so the contracted Q has orthonormal columns whatever
    LAPACK returns for the free directions.  The rank-deficiency findings (F-C06-b/c/d) therefore do NOT cover this class (it carries no
    rank tag); the unchanged tree passes it on every probe (36000 over seeds 0..2 of both tiers when the class was added)."""
    rng = gen.rng_for(spec["seed"], "c06deplast", spec["idx"])
    n = 2 if spec["idx"] % 5 < 2 else int(rng.integers(2, 6))          # exact cancellations at the last pivot are most frequent for the smallest shapes
    m = n + int(rng.integers(0, 4)) * int(spec["idx"] % 3 != 0)
    integer = spec["idx"] % 4 != 3
    for _ in range(50):
        B = gen.entries(rng, "int", m, n - 1) if integer else refq.randq(rng, m, n - 1)
        sv = embed.svals(B)
        if len(sv) and sv[-1] > 0 and sv[0] / sv[-1] < 30.0:
            break
    else:
        ctx.hit("deplast:no_well_conditioned_leading_block")
        return
    how = ["copy_of_first", "copy_of_random", "right_multiple", "sum_of_two", "negated_copy"][(spec["idx"] // 4) % 5]
    j = int(rng.integers(0, n - 1))
    if how == "copy_of_first":
        last = B[:, 0].copy()
    elif how == "copy_of_random":
        last = B[:, j].copy()
    elif how == "negated_copy":
        last = -B[:, j]
    elif how == "right_multiple":
        q = gen.entries(rng, "int", 1, 1)[0, 0] if integer else refq.randq(rng, 1, 1)[0, 0]
        last = B[:, j] * (q if abs(q) > 0 else np.quaternion(1, 0, 0, 0))
    else:
        last = B[:, j] + B[:, (j + 1) % (n - 1)] if n >= 3 else B[:, 0] * np.quaternion(2, 0, 0, 0)
    A = np.concatenate([B, last[:, None]], axis=1)
    ctx.hit("rank:dependent_last_column_only")
    ctx.hit("deplast:" + how + (":int" if integer else ":float"))
    ctx.distinct(A)
    judge(ctx, R, A, "qr_qua", ["dependent_last_column_only", how], graded=False)


def _history(spec, ctx, R):
    """One buffer, many calls: the caller's own object, the same object updated in place, views that keep its address."""
    rng = gen.rng_for(spec["seed"], "c06hist", spec["idx"])
    m, n = [(4, 4), (5, 3), (3, 5), (6, 6), (2, 2), (7, 4)][spec["idx"] % 6]
    A = refq.randq(rng, m, n)
    ctx.distinct("history", A)
    for lab, X in gen.history_forms(A):
        judge(ctx, R, X, "qr_qua", ["gauss", "history:" + lab])
    ctx.hit("history:one_buffer_many_calls")


def _shape(rng, maxd, idx):
    if idx % 11 == 5:          # extreme aspect ratio (m > 4n or n > 4m)
        a = int(rng.integers(1, 5))
        b = int(rng.integers(4 * a + 1, 10 * a + 2))
        return (b, a) if (idx // 11) % 2 == 0 else (a, b)
    k = idx % 6
    if k == 0:
        m = n = int(rng.integers(1, maxd + 1))
    elif k == 1:
        n = int(rng.integers(1, maxd)); m = int(rng.integers(n + 1, maxd + 1))
    elif k == 2:
        m = int(rng.integers(1, maxd)); n = int(rng.integers(m + 1, maxd + 1))
    elif k == 3:
        m, n = 1, int(rng.integers(1, maxd + 1))
    elif k == 4:
        m, n = int(rng.integers(1, maxd + 1)), 1
    else:
        m, n = (int(x) for x in rng.integers(1, maxd + 1, size=2))
    return m, n


def judge(ctx, R, A, site, tags, graded=True):
    m, n = A.shape
    N = min(m, n)
    eps = refq.EPS
    nrm = refq.fro(A)
    A0 = refq.fa(A).copy()
    # ENVIRONMENT: every third input is factored while the caller's numpy error mode is divide='raise', invalid='raise' (a common debugging
    # setting): a 0/0 or x/0 evaluated on the way - even if its result is discarded - then turns a correct answer into an exception
    strict = (int(np.sum(refq.fa(A) != 0)) + m + 2 * n) % 3 == 0
    try:
        if strict:
            ctx.hit("environment:numpy_errstate_raise")
            with np.errstate(divide="raise", invalid="raise"):
                Q, Rr = R.qsvd.qr_qua(A)
        else:
            Q, Rr = R.qsvd.qr_qua(A)
    except Exception as e:
        ctx.check("unexpected_exception", False, site=site + (":errstate_raise" if strict else ""), tags=tags, detail={"exception": repr(e), "shape": [m, n]})
        return
    ctx.check("input_unchanged", np.array_equal(refq.fa(A), A0), site=site, tags=tags)
    ok = Q.shape == (m, N) and Rr.shape == (N, n)
    ctx.check("shapes", ok, site=site, tags=tags, detail={"Q": Q.shape, "R": Rr.shape, "A": [m, n]})
    if not ok:
        return
    fin = refq.is_finite(Q) and refq.is_finite(Rr)
    ctx.check("finite", fin, site=site, tags=tags)
    if not fin:
        return
    oerr, ob = refq.orth_err(Q), C * max(m, n) * eps * max(1.0, N ** 0.5)
    otags = list(tags)
    kap = _kappa_leading(A) if graded else 1.0      # graded=False: the generator vouches for the conditioning of the part that determines Q
    if np.isfinite(oerr) and np.isfinite(kap) and kap > 1e2 and ob < oerr <= ob * kap:
        # graded form of the rank-deficiency mechanism: the quaternion structure of the real Q is determined only to
        # eps*kappa(leading block); a deviation above the graded bound does NOT get the tag
        otags.append("ill_conditioned_graded")
    ctx.check("Q_orthonormal", oerr, ob, site=site, tags=otags, detail={"shape": [m, n], "kappa_leading": kap})
    low = refq.absq(Rr) * np.tril(np.ones((N, n)), -1)
    ctx.check("R_upper", float(low.max()) if low.size else 0.0, C * max(m, n) * eps * max(nrm, 1e-300) + 1e-300, site=site, tags=tags,
              detail={"shape": [m, n]})
    ctx.check("reconstruction", refq.fro(refq.matmul(Q, Rr) - A), C * max(m, n) * eps * max(nrm, 1e-300) + 1e-300, site=site, tags=tags,
              detail={"shape": [m, n], "normA": nrm})


def _kappa_leading(A):
    """Condition number of the leading min(m,n) columns block (the part that determines Q)."""
    m, n = A.shape
    s = embed.svals(A[:, :min(m, n)])
    return float(s[0] / s[-1]) if len(s) and s[-1] > 0 else float("inf")


def _tags(ctx, A, extra=()):
    m, n = A.shape
    tags = list(extra)
    ctx.hit("shape:" + ("tall" if m > n else "wide" if m < n else "square"))
    if m < n:
        tags.append("wide")
    s = embed.svals(A)
    rk = int(np.sum(s > 1e-10 * s[0])) if len(s) and s[0] > 0 else 0
    generic_zero_cols = "zero_columns_generic" in tags
    if rk < min(m, n) and not generic_zero_cols:
        tags.append("rank_deficient")
        ctx.hit("rank:deficient", (m, n, rk))
    elif generic_zero_cols:
        # exactly-zero columns inside an otherwise generic (Gaussian) matrix: every trailing block met by the real QR has full
        # rank, the real factors keep the quaternion structure and the routine is correct on the pinned tree (0 failures in 6000
        # probes over all shapes / positions / zero signs) - this class is NOT covered by the rank-deficiency findings
        ctx.hit("rank:zero_columns_generic")
    else:
        ctx.hit("rank:full")
    if m < n and not generic_zero_cols:
        # the leading m x m block decides whether the real QR is unique: tag separately
        s2 = embed.svals(A[:, :m])
        if not (len(s2) and s2[0] > 0 and s2[-1] > 1e-10 * s2[0]):
            tags.append("leading_block_rank_deficient")
    return tags


def _full(spec, ctx, R):
    rng = gen.rng_for(spec["seed"], "c06full", spec["idx"])
    m, n = _shape(rng, spec["maxd"], spec["idx"])
    if "dims" in spec:
        m, n = spec["dims"]
        ctx.hit("size:ladder")
    c = spec["c"]
    if c == "gauss":
        A = refq.randq(rng, m, n)
    elif c == "spectrum":
        kap = float(rng.choice([1e1, 1e4, 1e8]))
        A, _, _ = refq.with_singular_values(rng, m, n, gen.spectrum("geometric", min(m, n), rng, kap))
    elif c in ("graded_columns", "graded_rows"):
        # full rank with columns (rows) scaled by widely different powers of ten, down to 1e-30 relative: QR is invariant under
        # column scaling (A D = Q (R D)), so every clause must hold; integer base in half of the cases
        A = gen.entries(rng, "int", m, n) if rng.random() < 0.5 else refq.randq(rng, m, n)
        if embed.rank(A, rtol=1e-9) < min(m, n):
            A = A + refq.diagq(np.full(min(m, n), 5.0), m, n)
        ex = rng.choice([0.0, -3.0, -8.0, -18.0, -30.0, 6.0], size=(n if c == "graded_columns" else m))
        if spec.get("twin"):
            ex = rng.permutation(np.resize(np.array([0.0, -4.0, -8.0, 6.0, -3.0]), m))      # at least two different scales
        if c == "graded_columns":
            A = A * (10.0 ** ex)[None, :]
        else:
            A = A * (10.0 ** ex)[:, None]
            if m > n and spec["idx"] % 2 == 0:
                # rows with bit-identical norms among the graded rows: one row is the negative (or a copy) of another.  The matrix stays of full
                # column rank through the remaining m - 1 >= n rows when they are
                i1, i2 = (int(v) for v in rng.choice(m, size=2, replace=False))
                A = A.copy()
                A[i2] = -A[i1] if spec["idx"] % 4 == 0 else A[i1]
                if embed.rank(np.delete(A, i2, axis=0) * (10.0 ** -ex[np.arange(m) != i2])[:, None], rtol=1e-9) < n:
                    A[i2] = A[i2] + refq.randq(rng, 1, n)[0] * (10.0 ** ex[i2])
                ctx.hit("rows:equal_norm_twins_among_graded_rows")
    elif c == "graded_last_pivot":
        # the LAST pivot column (index min(m,n)-1) scaled far below the others by an exact power of two (2^-60, 2^-200, 2^-500): for wide
        # inputs the trailing columns of R only hang on that pivot row
        if "dims" not in spec:
            m, n = [(3, 6), (2, 5), (4, 7), (3, 4), (5, 9), (6, 4), (4, 4), (1, 3), (2, 2)][spec["idx"] % 9]
        A = refq.randq(rng, m, n) if rng.random() < 0.7 else gen.entries(rng, "int", m, n) + refq.diagq(np.full(min(m, n), 5.0), m, n)
        sc = np.ones(n); sc[min(m, n) - 1] = 2.0 ** float(rng.choice([-60.0, -200.0, -500.0, -40.0]))
        A = A * sc[None, :]
    elif c in ("int", "pure_imag", "single_axis"):
        A = gen.entries(rng, c, m, n)
    elif c == "scaled_small":
        A = refq.randq(rng, m, n) * float(rng.choice([1e-8, 1e-14]))
    elif c == "scaled_big":
        A = refq.randq(rng, m, n) * float(rng.choice([1e8, 1e14]))
    elif c == "layout":
        A = gen.layout(refq.randq(rng, m, n), gen.LAYOUTS[spec["idx"] % len(gen.LAYOUTS)])
    elif c in ("real_only", "unit_identity", "upper_tri", "diag"):
        A = gen.structured(rng, c, m, n)
    elif c in ("herm_psd", "herm_indef", "unitary", "lower_tri", "rank1_plus_identity"):
        # square symmetric / unitary / triangular structure: a general QR has no use for it (and must not take a shortcut through it)
        if "dims" not in spec or m != n:
            m = n = max(1, min(m, n))
        A = refq.eye(n) + gen.structured(rng, "rank1", n, n) if c == "rank1_plus_identity" else gen.structured(rng, c, n, n)
    else:
        raise ValueError(c)
    if c in ("graded_columns", "graded_last_pivot", "graded_rows"):
        # generator ground truth: a full-rank matrix times a non-singular diagonal matrix from the right.  Householder QR is invariant under
        # column scaling (A D = Q (R D)), so the input is full rank in the sense that matters and NO rank-deficiency tag applies, however
        # small the numerical singular values of the scaled matrix are (a threshold-based tag would hand these cases to the findings)
        tags = [c] + (["wide"] if m < n else [])
        ctx.hit("rank:full_by_construction_graded")
    else:
        tags = _tags(ctx, A, [c])
    ctx.distinct(A, nontrivial=m * n >= 2 and refq.fro(A) > 0)
    judge(ctx, R, A, "qr_qua", tags)
    if spec["idx"] % 29 == 0:
        ctx.sample({"class": c, "shape": [m, n], "tags": tags, "A": A})


def _deficient(spec, ctx, R):
    rng = gen.rng_for(spec["seed"], "c06def", spec["idx"])
    m, n = _shape(rng, spec["maxd"], spec["idx"])
    c = spec["c"]
    N = min(m, n)
    if c == "lowrank":
        r = int(rng.integers(0, max(1, N)))
        A = refq.matmul(refq.randq(rng, m, r), refq.randq(rng, r, n)) if r else refq.zeros(m, n)
    elif c == "int_lowrank":
        r = int(rng.integers(1, max(2, N)))
        A = refq.matmul(gen.entries(rng, "int", m, r), gen.entries(rng, "int", r, n))
    elif c == "rank1":
        A = refq.matmul(refq.randq(rng, m, 1), refq.randq(rng, 1, n))
    elif c == "zero_matrix":
        A = refq.zeros(m, n)
    else:
        A = refq.randq(rng, m, n)
        generic = True
        j = int(rng.integers(0, n))
        if c == "zero_column":
            A[:, j] = np.quaternion(0, 0, 0, 0)
        elif c == "zero_column_negzero":
            # signed zeros: the column is exactly zero but stored as -0.0 (e.g. the result of negating a matrix)
            if rng.random() < 0.3:
                A = gen.entries(rng, "int", m, n)
                generic = False
            A[:, j] = np.quaternion(0, 0, 0, 0)
            A = -A
        elif c == "zero_column_negzero_interior":
            n = int(rng.integers(3, 6)); m = int(rng.integers(2, 7))
            generic = rng.random() >= 0.25
            A = refq.randq(rng, m, n) if generic else gen.entries(rng, "int", m, n)      # integer data may be rank-deficient beyond the zero column: ordinary tags
            j = int(rng.integers(1, n - 1))
            if spec["idx"] % 2:
                A[:, j] = np.quaternion(0, 0, 0, 0)
                A = -A if spec["idx"] % 4 == 1 else A * (-2.0)
            else:
                cf = refq.fa(A)
                cf[:, j, :] *= 0.0
                A = refq.qa(cf)
        elif c == "zero_column_masked":
            cf = refq.fa(A)
            cf[:, j, :] *= 0.0                     # negative entries become -0.0, positive ones +0.0
            A = refq.qa(cf)
        elif c == "dup_column" and n >= 2:
            k = (j + 1 + int(rng.integers(0, n - 1))) % n
            A[:, k] = A[:, j]
        elif c == "dep_column" and n >= 2:
            k = (j + 1 + int(rng.integers(0, n - 1))) % n
            A[:, k] = A[:, j] * refq.randq(rng, 1, 1)[0, 0]
        elif c == "zero_row":
            A[int(rng.integers(0, m)), :] = np.quaternion(0, 0, 0, 0)
        elif c == "leading_deficient" and m >= 2 and n > m:
            A[:, 1] = A[:, 0] * refq.randq(rng, 1, 1)[0, 0]      # wide, full row rank, but a rank-deficient leading block
    extra = [c] + (["zero_column"] if c in ("zero_column", "zero_matrix", "zero_column_negzero", "zero_column_masked", "zero_column_negzero_interior") else [])
    if c in ("zero_column", "zero_column_negzero", "zero_column_masked", "zero_column_negzero_interior") and generic:
        extra.append("zero_columns_generic")
    tags = _tags(ctx, A, extra)
    ctx.distinct(A, nontrivial=m * n >= 2 and refq.fro(A) > 0)
    judge(ctx, R, A, "qr_qua", tags)
    if spec["idx"] % 31 == 0:
        ctx.sample({"class": c, "shape": [m, n], "tags": tags, "A": A})


def _canonical(spec, ctx, R):
    """Fixed-seed rank-deficient inputs (witnesses of the open finding F-C06-b), independent of VERIF_SEED."""
    rng = gen.rng_for(0, "c06canon", spec["idx"])
    m = 3 + spec["idx"] % 4
    n = 2 + spec["idx"] % 3
    r = 1 + spec["idx"] % max(1, min(m, n) - 1)
    if spec.get("ill"):
        A, _, _ = refq.with_singular_values(rng, m, n, gen.spectrum("geometric", min(m, n), rng, 1e8))
        tags = _tags(ctx, A, ["spectrum"])
    elif spec.get("lead"):
        A = refq.randq(rng, n, m + 1)                     # wide (n < m + 1), full row rank
        A[:, 1] = A[:, 0] * refq.randq(rng, 1, 1)[0, 0]   # rank-deficient leading block
        tags = _tags(ctx, A, ["leading_deficient"])
    else:
        A = refq.matmul(refq.randq(rng, m, r), refq.randq(rng, r, n))
        tags = _tags(ctx, A, ["lowrank"])
    ctx.distinct(A)
    judge(ctx, R, A, "qr_qua", tags)
