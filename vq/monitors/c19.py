"""C19 Power iteration (DESIGN.md section 7, C19)."""
from __future__ import annotations

import math

import numpy as np

from .. import gen, reach, repo
from ..oracle import embed, refq

ID = "C19"
LEVEL = "exploration"
RULE = ("(a) Hermitian A = U diag(lambda) U^H (n = 1..6 quick / 1..10 thorough) with prescribed gap ratio |lambda_2/lambda_1| in "
        "{0, .3, .6, .8}, dominant eigenvalue positive / negative, remaining eigenvalues of either sign (mixed), repeated non-dominant "
        "values, scalings 1e-3 / 1e3; tol in {1e-8, 1e-10, 1e-12}; iteration cap computed from the gap; np.random.seed(s) for several "
        "seeds per spectrum (every random start): unit norm, estimate <= sigma_1, eigen-residual and estimate error below gap-derived "
        "bounds. (b) arbitrary non-Hermitian, zero, nilpotent, rank-1 and unitary matrices with small caps: unit norm and "
        "0 <= estimate <= sigma_1. (c) power_iteration_nonhermitian on Hermitian (fast path) and non-Hermitian input, both eigenvalue "
        "formats, with and without the vector: unit vector, |eigenvalue| <= sigma_1, real eigenvalue for Hermitian input. distinct = "
        "(input digest, parameters, seed); non-trivial = n >= 2")
ASSUMPTIONS = ["positive dominant eigenvalue: the run ends on ||v_k - v_{k-1}|| < tol with error <= tol/(1-r); bound 50*tol/(1-r) on the relative eigen-residual",
               "negative dominant eigenvalue: the iterate alternates in sign and the run ends on the stagnation test |d_k - d_{k-1}| < 1e-3*tol, "
               "which leaves an error <= (2/(1-r))*sqrt(1e-3*tol/(1-r^2)); bound 10x that",
               "a start vector with a dominant component below 1e-4 (probability ~1e-16) is not considered"]
SHARDS = {"quick": 8, "thorough": 16}
DECIDING = ["unit_norm_shape", "estimate_bounded", "estimate_is_rayleigh_modulus", "hermitian_eigen_residual", "hermitian_estimate", "seed_function",
            "nonherm:unit_vector", "nonherm:eigenvalue_bounded", "nonherm:hermitian_real", "nonherm:formats_consistent", "input_unchanged"]
MUST_REACH = ["pi:convergence_break", "pi:stagnation_break", "pi:zero_norm_break", "nh:hermitian_fast_path", "nh:complex_path",
              "class:negative_dominant", "class:positive_dominant"]

C = 1e3
EPS = refq.EPS
_REACH = None


def setup(ctx, R):
    global _REACH
    U = R.utils
    _REACH = reach.Reach(ctx)
    _REACH.watch(reach.Locator(U.power_iteration, "pi:convergence_break", "norm_diff < tol"))
    _REACH.watch(reach.Locator(U.power_iteration, "pi:stagnation_break", "abs(norm_diff - prev_norm_diff)"))
    _REACH.watch(reach.Locator(U.power_iteration, "pi:zero_norm_break", "Av_k_norm == 0"))
    _REACH.watch(reach.Locator(U.power_iteration_nonhermitian, "nh:hermitian_fast_path", "_is_hermitian_quat(A)"), index=0)
    _REACH.watch(reach.Locator(U.power_iteration_nonhermitian, "nh:block_purify", "block_purify"))
    _REACH.start()


def teardown(ctx, R):
    if _REACH:
        _REACH.stop()


def cases(tier, seed):
    out = []
    maxn = 6 if tier == "quick" else 16
    nseeds = 3 if tier == "quick" else 12
    idx = 0
    for ratio in (0.0, 0.3, 0.6, 0.8):
        for sign in ("pos", "neg", "pos_mixed", "neg_mixed", "neg_same", "decoupled_first_pos", "decoupled_first_neg"):
            for k in range(8 if tier == "quick" else 40):
                out.append({"kind": "herm", "cls": f"herm:{sign}", "ratio": ratio, "sign": sign, "idx": idx, "seed": seed,
                            "maxn": maxn, "nseeds": nseeds})
                idx += 1
    # size ladder (n above 8 / 16 / 32), gap ratio at the edge of the domain: many iterations are needed
    for n_ in ([12, 17, 24, 33] if tier == "quick" else [9, 12, 16, 17, 20, 24, 32, 33, 40, 48]):
        for sign in ("pos", "neg", "neg_same", "pos_mixed"):
            for ratio in (0.8, 0.3):
                out.append({"kind": "herm", "cls": f"herm:{sign}", "ratio": ratio, "sign": sign, "idx": idx, "seed": seed,
                            "maxn": maxn, "nseeds": 2 if tier == "quick" else 6, "n": n_})
                idx += 1
    for n_ in ([32, 48] if tier == "quick" else [16, 24, 32, 48, 64]):
        for sign in ("pos", "neg_same"):
            for k in range(2 if tier == "quick" else 4):
                out.append({"kind": "herm", "cls": f"herm:{sign}:packed", "ratio": 0.8, "sign": sign, "idx": idx, "seed": seed,
                            "maxn": maxn, "nseeds": 4 if tier == "quick" else 8, "n": n_, "packed": True})
                idx += 1
    # "from every random start": MANY starts on one matrix (12000 in the quick tier, 120000 in the thorough tier) for the clustered spectra
    for rep in range(12 if tier == "quick" else 120):
        out.append({"kind": "herm", "cls": "herm:many_starts", "ratio": 0.8, "sign": ["neg", "neg", "pos"][rep % 3], "idx": idx, "seed": seed,
                    "maxn": maxn, "nseeds": 1000, "n": 8, "packed": "pm"})
        idx += 1
    for (n_, sign_, tol_) in ([(1000, "pos", 1e-10), (1200, "neg", 1e-8)] if tier == "quick" else
                              [(1000, "pos", 1e-10), (1200, "neg", 1e-8), (1500, "pos", 1e-12), (2000, "neg", 1e-10), (800, "pos", 1e-8), (2500, "pos", 1e-10)]):
        out.append({"kind": "large", "cls": "herm:large_dimension", "n": n_, "sign": sign_, "tol": tol_, "idx": idx, "seed": seed,
                    "nseeds": 2 if tier == "quick" else 3, "scale": [1.0, 3.0, 1e-3][idx % 3]})
        idx += 1
    for cls in ("generic", "zero", "nilpotent", "lower_nilpotent", "zero_first_row", "zero_last_column", "rank1", "unitary", "upper_tri", "scaled"):
        for k in range(8 if tier == "quick" else 60):
            out.append({"kind": "bounded", "cls": "bounded:" + cls, "c": cls, "idx": idx, "seed": seed, "maxn": maxn, "nseeds": nseeds})
            idx += 1
    for k in range(60 if tier == "quick" else 600):
        out.append({"kind": "nonherm", "cls": "nonherm", "idx": idx, "seed": seed, "maxn": maxn})
        idx += 1
    return out


def run_case(spec, ctx, R):
    {"herm": _herm, "bounded": _bounded, "nonherm": _nonherm, "large": _large}[spec["kind"]](spec, ctx, R)


def _large(spec, ctx, R):
    """LARGE dimension with the whole non-dominant spectrum at the gap limit: A = s (0.8 I + 0.2 u u^H) (eigenvalues s and 0.8 s, the latter n-1
    times), n ~ 1000.  A random start has overlap ~ 1/sqrt(n) with u, so the iterate needs ~ log(sqrt(n)) / log(1.25) ~ 15 steps before it even
    points towards u and the step lengths GROW during that transient - the pre-asymptotic regime no small matrix shows."""
    U = R.utils
    rng = gen.rng_for(spec["seed"], "c19large", spec["idx"])
    n = spec["n"]
    u = rng.standard_normal((n, 4)); u /= np.linalg.norm(u)
    uq = refq.qa(u.reshape(n, 1, 4))
    sgn = -1.0 if spec["sign"] == "neg" else 1.0
    c = refq.fa(refq.matmul(uq, refq.herm(uq))) * 0.2
    c[np.arange(n), np.arange(n), 0] += 0.8
    A = refq.qa(c * sgn * spec.get("scale", 1.0))
    lam1 = sgn * spec.get("scale", 1.0)
    r_eff = 0.8
    tol = spec["tol"]
    cap = int(math.ceil(math.log(1e-17) / math.log(r_eff))) + 60 + int(math.ceil(math.log(math.sqrt(n)) / math.log(1.0 / r_eff)))
    tags = [spec["sign"], "ratio=0.8", "large_dimension"]
    if sgn < 0:
        delta = (2.0 / (1.0 - r_eff)) * math.sqrt(1e-3 * tol / (1.0 - r_eff ** 2))
        bound = 10.0 * 2.0 * delta + C * EPS * n
    else:
        bound = 20.0 * tol / (1.0 - r_eff) + C * EPS * n
    ctx.hit("size:pre_asymptotic_transient")
    ctx.hit("class:negative_dominant" if sgn < 0 else "class:positive_dominant")
    for k in range(spec["nseeds"]):
        sd = (spec["seed"] * 10007 + spec["idx"] * 13 + k) % (2 ** 31)
        det = {"n": n, "tol": tol, "cap": cap, "np_seed": sd}
        ctx.distinct("large", n, spec["sign"], tol, sd, nontrivial=True)
        np.random.seed(sd)
        try:
            v, est = U.power_iteration(A, max_iterations=cap, tol=tol, return_eigenvalue=True)
        except Exception as ex:
            ctx.check("unexpected_exception", False, site="power_iteration", tags=tags, detail={**det, "exception": repr(ex)})
            continue
        if not _check_basic(ctx, v, est, n, abs(lam1), "power_iteration:hermitian", tags, det):
            continue
        res = refq.fro(refq.matmul(A, v) - v * (sgn * float(est))) / abs(lam1)
        ctx.check("hermitian_eigen_residual", res, bound, site="power_iteration:hermitian", tags=tags, detail={**det, "residual": res, "estimate": est})
        ctx.check("hermitian_estimate", abs(float(est) - abs(lam1)) / abs(lam1), bound * bound + 1e-13 + C * EPS * n, site="power_iteration:hermitian",
                  tags=tags, detail={**det, "estimate": est, "lambda_1": lam1})


def _spectrum(rng, n, ratio, sign, packed=False):
    """Eigenvalues with |lambda_2/lambda_1| = ratio exactly (for n >= 2) and the requested sign pattern."""
    lam1 = 1.0 + rng.random() * 2.0
    if rng.random() < 0.35:
        lam1 = float(rng.choice([1.0, 1.0, 0.5, 2.0]))      # dominant modulus EXACTLY 1 (unitary-like scaling: ||A v|| -> 1) or a power of two
    if n == 1:
        return np.array([lam1 if sign.startswith("pos") else -lam1])
    rest = rng.random(n - 1) * ratio * lam1
    if packed:
        # all non-dominant eigenvalues packed just below the gap limit ([0.94, 1] * ratio * lambda_1): the iterate first rotates SLOWLY, the
        # change per step grows for several iterations before it decays - "no improvement over the last steps" is not convergence
        rest = ratio * lam1 * (1.0 - 0.0625 * rng.random(n - 1))
    rest[0] = ratio * lam1
    if packed == "pm":
        # all non-dominant eigenvalues AT the gap limit with alternating signs (+r, -r, +r, ...): the iterate turns slowly out of a large
        # cluster; a handful of random starts in ten thousand make two consecutive steps equally long in the transient
        return np.concatenate([[lam1 if sign.startswith("pos") else -lam1], ratio * lam1 * np.where(np.arange(n - 1) % 2 == 0, 1.0, -1.0)])
    if n >= 4 and rng.random() < 0.5:
        rest[2] = rest[1]                      # repeated non-dominant eigenvalue
    if sign == "pos":
        e = np.concatenate([[lam1], rest])
    elif sign == "neg":
        e = np.concatenate([[-lam1], rest])           # others positive (opposite sign)
    elif sign == "neg_same":
        e = np.concatenate([[-lam1], -rest])          # all negative
    else:
        sg = rng.choice([-1.0, 1.0], size=n - 1)
        e = np.concatenate([[lam1 if sign == "pos_mixed" else -lam1], rest * sg])
    return e


def _check_basic(ctx, v, est, n, s1, site, tags, det, A=None):
    ok = getattr(v, "shape", None) == (n, 1) and refq.is_finite(v)
    nv = refq.fro(v) if ok else float("nan")
    ctx.check("unit_norm_shape", bool(ok and abs(nv - 1.0) <= 1e-12), site=site, tags=tags, detail={**det, "norm": nv, "shape": getattr(v, "shape", None)})
    if est is not None:
        okb = isinstance(est, (float, np.floating)) and np.isfinite(est) and est >= 0.0 and est <= s1 * (1.0 + C * EPS * n) + 1e-300
        ctx.check("estimate_bounded", bool(okb), site=site, tags=tags, detail={**det, "estimate": est, "sigma_1": s1})
        if ok and okb and A is not None:
            rq = refq.matmul(refq.matmul(refq.herm(v), A), v)[0, 0]
            ctx.check("estimate_is_rayleigh_modulus", abs(float(est) - abs(rq)), C * EPS * n * max(s1, 1e-300) + 1e-300, site=site, tags=tags,
                      detail={**det, "estimate": est, "rayleigh_modulus": abs(rq)})
    return ok


def _herm(spec, ctx, R):
    U = R.utils
    rng = gen.rng_for(spec["seed"], "c19herm", spec["idx"])
    n = 1 + spec["idx"] % spec["maxn"] if spec["idx"] % 3 else int(rng.integers(2, spec["maxn"] + 1))
    if "n" in spec:
        n = spec["n"]
        ctx.hit("size:ladder")
    r, sign = spec["ratio"], spec["sign"]
    decoupled = sign.startswith("decoupled_first")
    if decoupled and n == 1:
        decoupled = False
    e = _spectrum(rng, n - 1 if decoupled else n, r, "pos" if sign.endswith("pos") else ("neg_mixed" if decoupled else sign), packed=spec.get("packed") or False)
    if spec.get("packed"):
        ctx.hit("spectrum:packed_below_gap")
    scale = [1.0, 1.0, 1e-3, 1e3, 1e-9, 1e-13, 1e9, 1.0, 2.0 ** -56, 2.0 ** -60, 1e-30, 1e30, 2.0 ** -200][spec["idx"] % 13]
    if scale < 1e-15 or scale > 1e15:
        ctx.hit("scale:beyond_eps")
    e = e * scale
    A, Uq = refq.hermitian_with_eigs(rng, e)
    if decoupled:
        # A = [0] (+) H: the first coordinate is isolated (zero first row and column), 0 is an eigenvalue with eigenvector e_1
        c = np.zeros((n, n, 4))
        c[1:, 1:] = refq.fa(A)
        A = refq.qa(c)
        uc = np.zeros((n, n, 4))
        uc[1:, :n - 1] = refq.fa(Uq)
        uc[0, n - 1, 0] = 1.0
        Uq = refq.qa(uc)
        e = np.concatenate([e, [0.0]])
    A = gen.vary(A, spec["idx"])
    lam1 = e[0]
    u1 = Uq[:, :1]
    r_eff = r if n >= 2 else 0.0
    tol = [1e-8, 1e-10, 1e-12][spec["idx"] % 3]
    cap = (int(math.ceil(math.log(1e-17) / math.log(r_eff))) if r_eff > 0 else 0) + 60
    negative = lam1 < 0
    ctx.hit("class:negative_dominant" if negative else "class:positive_dominant")
    s1 = float(embed.svals(A)[0])
    A0 = refq.fa(A).copy()
    tags = [sign, f"ratio={r}"]
    if negative:
        delta = (2.0 / (1.0 - r_eff)) * math.sqrt(1e-3 * tol / (1.0 - r_eff ** 2))
        bound = 10.0 * 2.0 * delta + C * EPS * n
    else:
        bound = 20.0 * tol / (1.0 - r_eff) + C * EPS * n
    first = None
    for k in range(spec["nseeds"]):
        sd = (spec["seed"] * 10007 + spec["idx"] * 13 + k) % (2 ** 31)
        det = {"n": n, "eigs": e, "tol": tol, "cap": cap, "np_seed": sd}
        ctx.distinct(A, tol, sd, nontrivial=n >= 2)
        np.random.seed(sd)
        try:
            if k == 2 or (k == 0 and spec["idx"] % 4 == 0):
                # call form: verbose=True prints only; what is returned is judged by the same clauses
                with repo.quiet():
                    v, est = U.power_iteration(A, max_iterations=cap, tol=tol, return_eigenvalue=True, verbose=True)
                ctx.hit("callform:verbose_true")
            else:
                v, est = U.power_iteration(A, max_iterations=cap, tol=tol, return_eigenvalue=True)
        except Exception as ex:
            ctx.check("unexpected_exception", False, site="power_iteration", tags=tags, detail={**det, "exception": repr(ex)})
            continue
        if not _check_basic(ctx, v, est, n, s1, "power_iteration:hermitian", tags, det, A):
            continue
        res = refq.fro(refq.matmul(A, v) - v * (math.copysign(1.0, lam1) * float(est))) / abs(lam1)
        ctx.check("hermitian_eigen_residual", res, bound, site="power_iteration:hermitian", tags=tags, detail={**det, "residual": res, "estimate": est})
        ctx.check("hermitian_estimate", abs(float(est) - abs(lam1)) / abs(lam1), bound * bound + 1e-13 + C * EPS * n, site="power_iteration:hermitian",
                  tags=tags, detail={**det, "estimate": est, "lambda_1": lam1})
        if k == 0:
            first = (sd, refq.fa(v).copy(), float(est))
        elif k == 1 and first is not None and n >= 2:
            # different seeds give different iterates (guards against a monitor that compares nothing)
            ctx.check("seed_function", not np.array_equal(refq.fa(v), first[1]), site="power_iteration:different_seed", tags=tags)
    if first is not None:
        sd, v0, e0 = first
        np.random.seed(sd)
        v, est = U.power_iteration(A, max_iterations=cap, tol=tol, return_eigenvalue=True)
        ctx.check("seed_function", np.array_equal(refq.fa(v), v0) and float(est) == e0, site="power_iteration:same_seed", tags=tags)
        np.random.seed(sd)
        v2 = U.power_iteration(A, max_iterations=cap, tol=tol)
        ctx.check("seed_function", np.array_equal(refq.fa(v2), v0), site="power_iteration:return_eigenvalue_False", tags=tags)
    ctx.check("input_unchanged", np.array_equal(refq.fa(A), A0), site="power_iteration")
    if spec["idx"] % 11 == 0:
        ctx.sample({"kind": "hermitian", "n": n, "eigs": e, "tol": tol, "cap": cap, "bound": bound})


def _bounded(spec, ctx, R):
    U = R.utils
    rng = gen.rng_for(spec["seed"], "c19b", spec["idx"])
    n = int(rng.integers(1, spec["maxn"] + 1))
    c = spec["c"]
    if c == "generic":
        A = refq.randq(rng, n, n)
    elif c == "zero":
        A = refq.zeros(n, n)
    elif c == "nilpotent":
        cc = np.zeros((n, n, 4))
        for i in range(n - 1):
            cc[i, i + 1] = rng.standard_normal(4)
        A = refq.qa(cc)
    elif c == "lower_nilpotent":
        cc = np.zeros((n, n, 4))
        for i in range(n - 1):
            cc[i + 1, :i + 1] = rng.standard_normal((i + 1, 4))
        A = refq.qa(cc)
    elif c in ("zero_first_row", "zero_last_column"):
        cc = rng.standard_normal((n, n, 4))
        if c == "zero_first_row":
            cc[0, :] = 0.0
        else:
            cc[:, n - 1] = 0.0
        A = refq.qa(cc)
    elif c == "rank1":
        A = gen.structured(rng, "rank1", n, n)
    elif c == "unitary":
        A = refq.rand_unitary(rng, n)
    elif c == "upper_tri":
        A = gen.structured(rng, "upper_tri", n, n)
    else:
        A = refq.randq(rng, n, n) * float(rng.choice([1e-14, 1e-6, 1e6, 1e12, 2.0 ** -60, 1e-30, 1e30]))
    s1 = float(embed.svals(A)[0])
    A0 = refq.fa(A).copy()
    for k in range(spec["nseeds"]):
        sd = (spec["seed"] * 10007 + spec["idx"] * 17 + k) % (2 ** 31)
        cap = int(rng.choice([0, 1, 2, 5, 30, 100]))
        det = {"n": n, "class": c, "cap": cap, "np_seed": sd}
        ctx.distinct(A, cap, sd, nontrivial=n >= 2)
        np.random.seed(sd)
        try:
            if (spec["idx"] + k) % 3 == 0:
                # verbose=True on every class (nilpotent, zero, rank-one, non-Hermitian ...): it announces breakdowns / stagnation / non-Hermitian
                # input and must still return the same kind of result
                with repo.quiet():
                    v, est = U.power_iteration(A, max_iterations=cap, tol=1e-10, return_eigenvalue=True, verbose=True)
                ctx.hit("callform:verbose_true")
            else:
                v, est = U.power_iteration(A, max_iterations=cap, tol=1e-10, return_eigenvalue=True)
        except Exception as ex:
            ctx.check("unexpected_exception", False, site="power_iteration", tags=[c], detail={**det, "exception": repr(ex)})
            continue
        _check_basic(ctx, v, est, n, s1, "power_iteration:any_matrix", [c], det, A)
    ctx.check("input_unchanged", np.array_equal(refq.fa(A), A0), site="power_iteration")


def _nonherm(spec, ctx, R):
    U = R.utils
    rng = gen.rng_for(spec["seed"], "c19nh", spec["idx"])
    n = int(rng.integers(1, spec["maxn"] + 1))
    herm = spec["idx"] % 3 == 0
    if herm:
        e = _spectrum(rng, n, 0.6, ["pos", "neg", "pos_mixed"][spec["idx"] % 3 if n > 1 else 0])
        A, _ = refq.hermitian_with_eigs(rng, e)
    elif spec["idx"] % 3 == 1:
        A = refq.randq(rng, n, n)
    else:
        # complex-embedded matrix with a dominant eigenvalue (converges): U diag(l) U^{-1} with l in span{1,i}
        cc = np.zeros((n, n, 4))
        cc[np.arange(n), np.arange(n), 0] = np.linspace(2.0, 0.3, n)
        cc[np.arange(n), np.arange(n), 1] = np.linspace(1.0, 0.1, n)
        P = refq.rand_unitary(rng, n)
        A = refq.matmul(refq.matmul(P, refq.qa(cc)), refq.herm(P))
    kind_nh = spec["idx"] % 7
    if not herm and kind_nh in (4, 5) and n >= 2:
        # nilpotent inputs (strictly triangular, index up to n): the iterate reaches the exact zero vector after finitely many steps
        cc = rng.standard_normal((n, n, 4)) * (np.triu(np.ones((n, n)), 1) if kind_nh == 4 else np.tril(np.ones((n, n)), -1))[..., None]
        A = refq.qa(cc)
        ctx.hit("nh:nilpotent")
    if not herm:
        ctx.hit("nh:complex_path")
    # the documented options, in every combination over the cases: res_tol (None disables the residual stop), block_purify, subfield axis
    res_tol_opt = [1e-10, None, 1e-6][(spec["idx"] // 7) % 3]
    purify_opt = bool((spec["idx"] // 21) % 2)
    axis_opt = "x"
    opts = {"res_tol": res_tol_opt, "block_purify": purify_opt}
    # the remaining documented options in explicit form: eigenvalue tolerance (default, looser, tighter) and the only supported subfield axis
    et_ = [None, 1e-8, 1e-14, 1e-12][(spec["idx"] // 3) % 4]
    if et_ is not None:
        opts["eig_tol"] = et_
    if (spec["idx"] // 5) % 2:
        opts["subfield_axis"] = "x"
    ctx.hit(f"nh:options:res_tol={res_tol_opt},block_purify={purify_opt}")
    s1 = float(embed.svals(A)[0])
    A0 = refq.fa(A).copy()
    sd = int(rng.integers(0, 1000))
    cap = int(rng.choice([5, 200, 2000]))
    det = {"n": n, "hermitian": herm, "cap": cap, "seed": sd, "options": {k: str(v) for k, v in opts.items()}}
    ctx.distinct(A, cap, sd, str(opts), nontrivial=n >= 2)
    outs = {}
    for fmt in ("complex", "quaternion"):
        for rv in (True, False):
            np.random.seed(sd)
            try:
                with np.errstate(all="ignore"):
                    out = U.power_iteration_nonhermitian(A, max_iterations=cap, seed=sd, return_vector=rv, eigenvalue_format=fmt, **opts)
            except Exception as ex:
                ctx.check("unexpected_exception", False, site=f"power_iteration_nonhermitian[{fmt},{rv}]", detail={**det, "exception": repr(ex)})
                continue
            outs[(fmt, rv)] = out
            if rv:
                ok = isinstance(out, tuple) and len(out) == 3
                q, lam, res = out if ok else (None, None, None)
            else:
                ok = isinstance(out, tuple) and len(out) == 2
                lam, res = out if ok else (None, None)
                q = None
            site = f"power_iteration_nonhermitian[{fmt},vector={rv}]"
            if not ok:
                ctx.check("nonherm:formats_consistent", False, site=site, detail=det)
                continue
            if rv:
                okq = getattr(q, "shape", None) == (n,) and refq.is_finite(q)
                nq = refq.fro(q.reshape(n, 1)) if okq else float("nan")
                ctx.check("nonherm:unit_vector", bool(okq and abs(nq - 1.0) <= 1e-12), site=site, detail={**det, "norm": nq})
            if fmt == "complex":
                lc = complex(lam)
            else:
                lc = complex(lam.w, lam.x)
                ctx.check("nonherm:formats_consistent", bool(lam.y == 0 and lam.z == 0), site=site + ":subfield", detail=det)
            ctx.check("nonherm:eigenvalue_bounded", bool(np.isfinite(abs(lc)) and abs(lc) <= s1 * (1 + C * EPS * n) + 1e-300), site=site,
                      detail={**det, "eigenvalue": [lc.real, lc.imag], "sigma_1": s1})
            if herm:
                ctx.check("nonherm:hermitian_real", lc.imag == 0.0, site=site, detail={**det, "eigenvalue": [lc.real, lc.imag]})
    # the four call forms describe the same computation
    if len(outs) == 4:
        lc = complex(outs[("complex", True)][1])
        lq = outs[("quaternion", True)][1]
        same = (complex(lq.w, lq.x) == lc and complex(outs[("complex", False)][0]) == lc
                and np.array_equal(refq.fa(outs[("complex", True)][0]), refq.fa(outs[("quaternion", True)][0])))
        ctx.check("nonherm:formats_consistent", bool(same), site="power_iteration_nonhermitian:call_forms", detail=det)
    ctx.check("input_unchanged", np.array_equal(refq.fa(A), A0), site="power_iteration_nonhermitian")
