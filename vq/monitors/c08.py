"""C08 Hermitian eigendecomposition and tridiagonalisation (DESIGN.md section 7, C08)."""
from __future__ import annotations

import numpy as np

from .. import gen, reach, repo
from ..oracle import embed, refq

ID = "C08"
LEVEL = "exploration"
RULE = ("Hermitian A = U diag(lambda) U^H (symmetrised bit-for-bit) with prescribed spectra: simple, k-fold repeats, zero eigenvalues "
        "(low rank, projections, zero matrix), mixed sign, clusters (relative gap 1e-3), all-equal (c*I); already diagonal / real "
        "tridiagonal / quaternion tridiagonal inputs; integer Hermitian; sparse patterns with zero sub-columns (reflector alpha == 0) "
        "and real-positive / zero leading sub-column entry (r == 0 branch); scalings 1e-8..1e8; memory layouts. tridiagonalize (n >= 2) "
        "and quaternion_eigendecomposition (+ the two wrappers) are judged on each; non-Hermitian (relative skew 1e-2, 1) and non-square "
        "inputs must raise. distinct = input digest; non-trivial = n >= 2 and A != 0")
ASSUMPTIONS = ["backward-error constant c = 1e3; eigenvalues compared with eigvalsh of the complex adjoint (LAPACK) and with the generator's ground truth",
               "the Hermitian guards use allclose(rtol 1e-5, atol 1e-10): rejection is only required for relative skew >= 1e-2",
               "exact power-of-two scalings 2^-1000 .. 2^500 are exercised; above about 1e154 (squares of the entries overflow) the routines "
               "raise OverflowError (check_tridiagonal squares Python floats) - a loud failure, not judged"]
SHARDS = {"quick": 8, "thorough": 16}
DECIDING = ["tri:P_unitary", "tri:B_real_tridiagonal_exact", "tri:B_symmetric", "tri:similarity", "tri:spectrum",
            "eig:values_real", "eig:values_true", "eig:residual", "eig:V_unitary", "eig:reconstruction",
            "eig:wrappers_consistent", "reject:non_hermitian", "reject:non_square"]
MUST_REACH = ["householder:alpha_zero", "eig:1x1", "pattern:repeated", "pattern:zero_eigs"]

C = 1e3

PATTERNS = ["simple", "repeat2", "repeat3", "all_equal", "zeros", "projection", "mixed_sign", "cluster", "rank1", "zero_matrix",
            "neg_definite", "sym_pm"]
STRUCT = ["diag_real", "tridiag_real", "tridiag_quat", "int", "zero_subcolumn", "leading_real_positive", "leading_zero", "block_diag",
          "scaled", "layout", "gram", "leading_tiny", "graded_entries", "leading_near_real", "glued_wilkinson"]


def cases(tier, seed):
    out = []
    maxn = 6 if tier == "quick" else 16
    rep = 30 if tier == "quick" else 400
    idx = 0
    for pat in PATTERNS:
        for r in range(rep):
            out.append({"kind": "spectrum", "cls": "spectrum:" + pat, "pat": pat, "idx": idx, "seed": seed, "maxn": maxn})
            idx += 1
    for r in range(12 if tier == "quick" else 80):
        out.append({"kind": "spectrum", "cls": "spectrum:simple", "pat": "simple", "idx": idx, "seed": seed, "maxn": maxn, "n": 2 + r % 5, "history": True})
        idx += 1
    # size ladder beyond every plausible blocking threshold (panel widths 8 / 16 / 32, sizes n with n-1 or n-2 a multiple of 16)
    ladder = [9, 12, 16, 17, 18, 20, 24, 33] if tier == "quick" else list(range(9, 36)) + [40, 48, 49, 50, 64, 65, 66]
    for k, n in enumerate(ladder):
        for pat in (PATTERNS[k % len(PATTERNS)], "simple"):
            out.append({"kind": "spectrum", "cls": "spectrum:" + pat, "pat": pat, "idx": idx, "seed": seed, "maxn": maxn, "n": n})
            idx += 1
    # exact power-of-two scalings into the range where squares of the entries under- or overflow
    for pat in PATTERNS:
        for p2 in (-1000, -900, -600, -540, -520, -400, 400, 500):
            for r in range(1 if tier == "quick" else 4):
                out.append({"kind": "spectrum", "cls": "spectrum:" + pat, "pat": pat, "idx": idx, "seed": seed, "maxn": min(maxn, 7), "pow2": p2})
                idx += 1
    for st in STRUCT:
        for r in range(rep):
            out.append({"kind": "struct", "cls": "struct:" + st, "st": st, "idx": idx, "seed": seed, "maxn": maxn})
            idx += 1
    for r in range(rep * 2):
        out.append({"kind": "reject", "cls": "reject", "idx": idx, "seed": seed, "maxn": maxn})
        idx += 1
    return out


_REACH = None


def setup(ctx, R):
    global _REACH
    _REACH = reach.Reach(ctx)
    T = R.tridiagonalize
    _REACH.watch(reach.Locator(T.householder_vector, "householder:alpha_zero", "alpha == 0"))
    _REACH.watch(reach.Locator(T.householder_vector, "householder:r_zero", "r != 0", which="orelse"))
    _REACH.watch(reach.Locator(R.eigen.quaternion_eigendecomposition, "eig:1x1", "m == 1"))
    _REACH.start()


def teardown(ctx, R):
    if _REACH:
        _REACH.stop()


def run_case(spec, ctx, R):
    {"spectrum": _spectrum, "struct": _struct, "reject": _reject}[spec["kind"]](spec, ctx, R)


def _eigs(rng, pat, n):
    if pat == "simple":
        e = np.sort(rng.standard_normal(n) * 3.0)
        e = e + np.arange(n) * 0.1
    elif pat == "repeat2":
        e = list(rng.standard_normal(max(1, n - 1)) * 3.0 + np.arange(max(1, n - 1)))
        e = np.array((e + [e[int(rng.integers(0, len(e)))]])[:n])
    elif pat == "repeat3":
        e = list(rng.standard_normal(max(1, n - 2)) * 3.0 + np.arange(max(1, n - 2)))
        j = int(rng.integers(0, len(e)))
        e = np.array((e + [e[j], e[j]])[:n])
    elif pat == "all_equal":
        e = np.full(n, float(rng.choice([-2.0, 0.5, 1.0, 3.0])))
    elif pat == "zeros":
        k = int(rng.integers(1, n + 1))
        e = np.concatenate([np.zeros(k), 1.0 + rng.random(n - k) * 3.0 + np.arange(n - k)])
    elif pat == "projection":
        k = int(rng.integers(0, n + 1))
        e = np.concatenate([np.ones(k), np.zeros(n - k)])
    elif pat == "mixed_sign":
        e = (1.0 + rng.random(n) * 3.0 + np.arange(n) * 0.2) * rng.choice([-1.0, 1.0], size=n)
    elif pat == "cluster":
        e = 2.0 * (1.0 + 1e-3 * np.arange(n))
    elif pat == "rank1":
        e = np.concatenate([[float(rng.choice([-2.0, 3.0]))], np.zeros(n - 1)])
    elif pat == "zero_matrix":
        e = np.zeros(n)
    elif pat == "neg_definite":
        e = -(1.0 + rng.random(n) * 4.0 + np.arange(n) * 0.1)
    elif pat == "sym_pm":
        h = (n + 1) // 2
        b = 1.0 + rng.random(h) * 2.0 + np.arange(h)
        e = np.concatenate([b, -b])[:n]
    else:
        raise ValueError(pat)
    return np.sort(np.asarray(e, dtype=float))


def truth_tags(eigs):
    e = np.sort(np.asarray(eigs, dtype=float))
    sc = max(float(np.max(np.abs(e))) if len(e) else 0.0, 1e-300)
    tags = []
    d = np.diff(e) / sc
    if np.any(d <= 1e-9):
        tags.append("repeated_eigenvalue")
    if np.any((d > 1e-9) & (d < 1e-2)):
        tags.append("clustered_eigenvalues")
    if np.any(np.abs(e) <= 1e-12 * sc) and sc > 1e-290:
        tags.append("zero_eigenvalue")
    return tags


def judge(ctx, R, A, site, tags, eig_truth=None, pow2=0):
    """Judge tridiagonalize (n >= 2) and the eigendecomposition of the Hermitian matrix A.

    pow2 != 0: the routines are given A * 2**pow2 (exact) and B / the eigenvalues are scaled back exactly before they are judged, so
    the oracle arithmetic stays in the normal range while the routines work where squares of the entries under- or overflow."""
    Ain = A * 2.0 ** pow2 if pow2 else A
    back = 2.0 ** (-pow2)
    n = A.shape[0]
    eps = refq.EPS
    nrm = refq.fro(A)
    floor = 1e-300
    lam_or = embed.eigvalsh(A)
    sc = max(float(np.max(np.abs(lam_or))) if n else 0.0, floor)
    A0 = refq.fa(Ain).copy()
    if "repeated_eigenvalue" in tags:
        ctx.hit("pattern:repeated")
    if "zero_eigenvalue" in tags:
        ctx.hit("pattern:zero_eigs")
    # ---- tridiagonalize ------------------------------------------------------------
    if n >= 2:
        st = site + ":tridiagonalize"
        try:
            with np.errstate(all="ignore"):
                P, B = R.tridiagonalize.tridiagonalize(Ain)
            if pow2:
                B = B * back
        except Exception as e:
            ctx.check("unexpected_exception", False, site=st, tags=tags, detail={"exception": repr(e), "n": n})
            P = None
        if P is not None:
            ok = P.shape == (n, n) and B.shape == (n, n) and refq.is_finite(P) and refq.is_finite(B)
            ctx.check("tri:shapes_finite", ok, site=st, tags=tags)
            if ok:
                ctx.check("tri:P_unitary", refq.orth_err(P), C * n * eps * n ** 0.5, site=st, tags=tags)
                Bc = refq.fa(B)
                band = np.abs(np.subtract.outer(np.arange(n), np.arange(n))) <= 1
                exact = bool(np.all(Bc[..., 1:] == 0) and np.all(Bc[~band][:, 0] == 0))
                ctx.check("tri:B_real_tridiagonal_exact", exact, site=st, tags=tags)
                Br = Bc[..., 0]
                ctx.check("tri:B_symmetric", float(np.max(np.abs(Br - Br.T))), C * n * eps * max(nrm, floor) + floor, site=st, tags=tags)
                sim = refq.matmul(refq.matmul(P, A), refq.herm(P))
                ctx.check("tri:similarity", refq.fro(sim - B), C * n * eps * n * max(nrm, floor) + floor, site=st, tags=tags,
                          detail={"n": n, "normA": nrm})
                wb = np.linalg.eigvalsh(0.5 * (Br + Br.T))
                ctx.check("tri:spectrum", float(np.max(np.abs(wb - lam_or))), C * n * eps * n * sc + floor, site=st, tags=tags,
                          detail={"B_eigs": wb, "oracle": lam_or})
            ctx.check("input_unchanged", np.array_equal(refq.fa(Ain), A0), site=st, tags=tags)
    # ---- eigendecomposition --------------------------------------------------------
    st = site + ":eigendecomposition"
    try:
        # call form: every third input goes through verbose=True (prints only; what is returned is judged by the same clauses)
        vb_ = (int(np.sum(np.abs(refq.fa(A)) > 0)) + n) % 3 == 0
        with np.errstate(all="ignore"), repo.quiet():
            lam, V = R.eigen.quaternion_eigendecomposition(Ain, verbose=True) if vb_ else R.eigen.quaternion_eigendecomposition(Ain)
        ctx.hit("callform:verbose_" + str(vb_))
    except Exception as e:
        ctx.check("unexpected_exception", False, site=st, tags=tags, detail={"exception": repr(e), "n": n})
        return
    ctx.check("input_unchanged", np.array_equal(refq.fa(Ain), A0), site=st, tags=tags)
    lam = np.asarray(lam) * back if pow2 else np.asarray(lam)
    ok = lam.shape == (n,) and V.shape == (n, n) and bool(np.all(np.isfinite(lam))) and refq.is_finite(V)
    ctx.check("eig:shapes_finite", ok, site=st, tags=tags, detail={"lam": lam.shape, "V": V.shape})
    if not ok:
        return
    vb = C * n * eps * n * sc + floor
    ctx.check("eig:values_real", float(np.max(np.abs(np.imag(lam)))), vb, site=st, tags=tags)
    ls = np.sort(np.real(lam))
    ctx.check("eig:values_true", float(np.max(np.abs(ls - lam_or))), vb, site=st, tags=tags, detail={"lam": ls, "oracle": lam_or})
    if eig_truth is not None:
        ctx.check("eig:values_true", float(np.max(np.abs(ls - np.sort(eig_truth)))), 10 * vb, site=st + ":ground_truth", tags=tags,
                  detail={"lam": ls, "truth": np.sort(eig_truth)})
    AV = refq.matmul(A, V)
    VL = V * np.real(lam)[None, :]
    ctx.check("eig:residual", refq.fro(AV - VL), C * n * eps * n * max(nrm, floor) + floor, site=st, tags=tags)
    ctx.check("eig:V_unitary", refq.orth_err(V), C * n * eps * n ** 0.5, site=st, tags=tags)
    ctx.check("eig:reconstruction", refq.fro(refq.matmul(VL, refq.herm(V)) - A), C * n * eps * n * max(nrm, floor) + floor, site=st,
              tags=tags)
    try:
        l2 = np.asarray(R.eigen.quaternion_eigenvalues(Ain))
        V2 = R.eigen.quaternion_eigenvectors(Ain)
        same = np.array_equal(l2 * back if pow2 else l2, lam) and np.array_equal(refq.fa(V2), refq.fa(V))
    except Exception as e:
        same = False
    ctx.check("eig:wrappers_consistent", same, site=st, tags=tags)


def _spectrum(spec, ctx, R):
    rng = gen.rng_for(spec["seed"], "c08spec", spec["idx"])
    n = 1 + spec["idx"] % spec["maxn"] if spec["idx"] % 3 else int(rng.integers(1, spec["maxn"] + 1))
    n = spec.get("n", n)
    if "n" in spec:
        ctx.hit("size:ladder")
    e = _eigs(rng, spec["pat"], n)
    A, _ = refq.hermitian_with_eigs(rng, e)
    tags = truth_tags(e)
    ctx.distinct(A, nontrivial=n >= 2 and refq.fro(A) > 0)
    if spec.get("history"):
        for lab, X in gen.history_forms(A, hermitian=True):
            judge(ctx, R, X, "history:" + lab, ["history"])
        ctx.hit("history:one_buffer_many_calls")
        return
    if spec.get("pow2"):
        ctx.hit("scale:pow2_extreme")
        judge(ctx, R, A, "prescribed:scaled_2^%d" % spec["pow2"], tags + ["extreme_scale"], eig_truth=e, pow2=spec["pow2"])
        return
    judge(ctx, R, A, "prescribed", tags, eig_truth=e)
    if spec["idx"] % 23 == 0:
        ctx.sample({"pattern": spec["pat"], "n": n, "eigs": e, "tags": tags, "A": A})


def _struct(spec, ctx, R):
    rng = gen.rng_for(spec["seed"], "c08struct", spec["idx"])
    n = int(rng.integers(2, spec["maxn"] + 1))
    st = spec["st"]
    if st == "diag_real":
        A = refq.diagq(rng.standard_normal(n) * 2.0)
    elif st == "tridiag_real":
        c = np.zeros((n, n, 4))
        c[np.arange(n), np.arange(n), 0] = rng.standard_normal(n)
        off = rng.standard_normal(n - 1)
        c[np.arange(n - 1), np.arange(1, n), 0] = off
        c[np.arange(1, n), np.arange(n - 1), 0] = off
        A = refq.qa(c)
    elif st == "tridiag_quat":
        c = np.zeros((n, n, 4))
        c[np.arange(n), np.arange(n), 0] = rng.standard_normal(n)
        off = rng.standard_normal((n - 1, 4))
        c[np.arange(n - 1), np.arange(1, n)] = off
        A = refq.symmetrize(refq.qa(c) + refq.herm(refq.qa(c)))
    elif st == "int":
        B = gen.entries(rng, "int", n, n)
        A = refq.symmetrize(B + refq.herm(B))
    elif st == "zero_subcolumn":
        # first column has nothing below the diagonal (alpha == 0 in the first reflector), rest generic
        B = refq.randq(rng, n, n)
        A = refq.symmetrize(B + refq.herm(B))
        c = refq.fa(A)
        j = int(rng.integers(0, max(1, n - 1)))
        c[j + 1:, j] = 0.0
        c[j, j + 1:] = 0.0
        A = refq.qa(c)
    elif st in ("leading_real_positive", "leading_zero"):
        B = refq.randq(rng, n, n)
        A = refq.symmetrize(B + refq.herm(B))
        c = refq.fa(A)
        c[1, 0] = [abs(c[1, 0, 0]) + 0.5, 0, 0, 0] if st == "leading_real_positive" else [0, 0, 0, 0]
        c[0, 1] = c[1, 0]
        A = refq.qa(c)
    elif st == "glued_wilkinson":
        # several Wilkinson matrices W_m (diagonal |i|, off-diagonal 1) glued by a tiny off-diagonal entry: an already tridiagonal Hermitian matrix
        # with many eigenvalue clusters that are extremely tight but neither repeated nor separated - the standard stress test of tridiagonal
        # eigensolvers; real, and conjugated by a diagonal of unit quaternions (quaternion off-diagonal entries)
        m_, c_ = [(13, 3), (7, 4), (21, 2), (9, 5), (5, 3)][int(rng.integers(0, 5))]
        glue = float(rng.choice([1e-12, 1e-10, 1e-14]))
        n = m_ * c_
        h_ = (m_ - 1) // 2
        T = np.zeros((n, n))
        for cc in range(c_):
            o = cc * m_
            T[o:o + m_, o:o + m_] = np.diag(np.abs(np.arange(-h_, h_ + 1)).astype(float)) + np.diag(np.ones(m_ - 1), 1) + np.diag(np.ones(m_ - 1), -1)
            if cc:
                T[o, o - 1] = T[o - 1, o] = glue
        A = refq.qa(np.stack([T, 0 * T, 0 * T, 0 * T], axis=-1))
        if rng.random() < 0.5:
            D = refq.unit_quats(rng, n)
            A = refq.symmetrize((A * D[:, None]) * np.conjugate(D)[None, :])
    elif st == "leading_near_real":
        # the phase-carrying entry A[1,0] is real up to a vector part of relative size 1e-8 .. 1e-12 (near-real, not real)
        B = refq.randq(rng, n, n)
        c = refq.fa(refq.symmetrize(B + refq.herm(B))).copy()
        t_ = float(rng.choice([3e-9, 1e-8, 1e-10, 1e-12]))
        c[1, 0, 1:] = c[1, 0, 1:] * t_ * abs(c[1, 0, 0])
        c[0, 1] = c[1, 0] * np.array([1.0, -1.0, -1.0, -1.0])
        A = refq.symmetrize(refq.qa(c))
    elif st in ("leading_tiny", "graded_entries"):
        # small-but-legitimate data next to O(1) data: the entry that carries the reflector's phase (A[1,0]) of relative size 1e-6 .. 1e-12, or
        # every entry of the matrix on its own scale (1 .. 1e-12, Hermitian): neither is round-off, both must be carried through
        B = refq.randq(rng, n, n)
        A = refq.symmetrize(B + refq.herm(B))
        c = refq.fa(A).copy()
        if st == "leading_tiny":
            t_ = float(rng.choice([1e-6, 1e-8, 1e-9, 2e-10, 1e-12]))
            c[1, 0] = c[1, 0] / max(float(np.linalg.norm(c[1, 0])), 1e-300) * t_
            c[0, 1] = c[1, 0] * np.array([1.0, -1.0, -1.0, -1.0])
        else:
            ex = rng.choice([0.0, -3.0, -6.0, -9.0, -12.0], size=(n, n))
            ex = np.minimum(ex, ex.T)
            c = c * (10.0 ** ex)[..., None]
        A = refq.symmetrize(refq.qa(c))
    elif st == "block_diag":
        k = int(rng.integers(1, n))
        c = np.zeros((n, n, 4))
        B1 = refq.randq(rng, k, k); B2 = refq.randq(rng, n - k, n - k)
        c[:k, :k] = refq.fa(refq.symmetrize(B1 + refq.herm(B1)))
        c[k:, k:] = refq.fa(refq.symmetrize(B2 + refq.herm(B2)))
        A = refq.qa(c)
    elif st == "scaled":
        e = _eigs(rng, "mixed_sign", n) * float(rng.choice([1e-8, 1e-4, 1e4, 1e8]))  # the stated range of the property
        A, _ = refq.hermitian_with_eigs(rng, e)
    elif st == "layout":
        A, _ = refq.hermitian_with_eigs(rng, _eigs(rng, "simple", n))
        A = gen.layout(A, gen.LAYOUTS[spec["idx"] % len(gen.LAYOUTS)])
    elif st == "gram":
        k = int(rng.integers(1, n + 1))
        B = refq.randq(rng, k, n)
        A = refq.symmetrize(refq.matmul(refq.herm(B), B))
    else:
        raise ValueError(st)
    lam = embed.eigvalsh(A)
    tags = truth_tags(lam) + [st]
    ctx.distinct(A, nontrivial=refq.fro(A) > 0)
    judge(ctx, R, A, "structured", tags)
    if spec["idx"] % 37 == 0:
        ctx.sample({"structure": st, "n": n, "tags": tags, "A": A})


def _reject(spec, ctx, R):
    rng = gen.rng_for(spec["seed"], "c08rej", spec["idx"])
    n = int(rng.integers(2, spec["maxn"] + 1))
    k = spec["idx"] % 6
    fns = {"tridiagonalize": R.tridiagonalize.tridiagonalize, "eigendecomposition": R.eigen.quaternion_eigendecomposition,
           "eigenvalues": R.eigen.quaternion_eigenvalues, "eigenvectors": R.eigen.quaternion_eigenvectors}
    if k == 5:
        # Hermitian symmetry violated in ONE specific place only (diagonal vector part, a single entry, a real part, ...)
        from .c20 import _non_herm_structured
        for lab, A in _non_herm_structured(rng, n).items():
            ctx.distinct("reject:" + lab, A)
            A0 = refq.fa(A).copy()
            for name, f in fns.items():
                try:
                    f(A)
                    raised = False
                except Exception:
                    raised = True
                ctx.check("reject:non_hermitian", raised, site=name, tags=["structured:" + lab])
                ctx.check("input_unchanged", np.array_equal(refq.fa(A), A0), site=name)
        return
    if k in (0, 1):
        H, _ = refq.hermitian_with_eigs(rng, _eigs(rng, "simple", n))
        S = refq.randq(rng, n, n)
        S = S - refq.herm(S)                                   # skew part
        rel = 1e-2 if k == 0 else 1.0
        A = H + S * (rel * refq.fro(H) / max(refq.fro(S), 1e-300))
        clause = "reject:non_hermitian"
    elif k == 4:
        c = rng.standard_normal((1, 1, 4))
        c[0, 0, 1 + int(rng.integers(0, 3))] += 1.0            # 1x1 with a non-real entry is not Hermitian (relative skew ~ 1)
        A = refq.qa(c)
        clause = "reject:non_hermitian"
    elif k == 2:
        A = refq.randq(rng, n, n + int(rng.integers(1, 3)))
        clause = "reject:non_square"
    else:
        A = refq.randq(rng, n + int(rng.integers(1, 3)), n)
        clause = "reject:non_square"
    ctx.distinct(clause, A)
    A0 = refq.fa(A).copy()
    for name, f in fns.items():
        try:
            f(A)
            raised = False
        except Exception as e:
            raised = True
            ctx.hit("rejected:" + type(e).__name__)
        ctx.check(clause, raised, site=name, tags=[f"skew={'1e-2' if k == 0 else '1'}"] if k in (0, 1, 4) else [])
        ctx.check("input_unchanged", np.array_equal(refq.fa(A), A0), site=name)
