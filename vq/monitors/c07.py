"""C07 LU with partial pivoting (DESIGN.md section 7, C07)."""
from __future__ import annotations

import itertools

import numpy as np
import quaternion

from .. import gen
from ..oracle import embed, refq

ID = "C07"
LEVEL = "exploration"
EXHAUSTIVE = True
EXHAUSTIVE_NOTE = ("every one of the m! pivot orders for m <= 4 (quick) / m <= 5 (thorough), for square, tall and wide shapes, "
                   "forced by construction A = P^T L U with |multipliers| <= 0.8; random / singular classes sampled")
RULE = ("(a) exhaustive pivot-order enumeration: for each permutation pi of m rows, A = P_pi^T L U with oracle-made unit lower L "
        "(multiplier moduli in [0.1,0.8]) and upper U with diagonal moduli in [1,2]; the pivot search is then forced to follow pi; "
        "both output modes judged; the permutation actually returned is recorded (reach evidence) and, where unique (n >= m-1), "
        "compared with pi; (b) sampled: generic, diagonally dominant, modulus ties, integer, scaled, layouts; (c) singular classes "
        "(zero column, zero matrix, dependent columns, 1x1 zero): exception or factors that reproduce A. distinct = input digest; "
        "non-trivial = at least one row interchange required or m*n > 1")
ASSUMPTIONS = ["backward-error bound c*max(m,n)*eps*||L||_F*||U||_F with c = 100 (growth is bounded because |multipliers| <= 1)",
               "an exception on a nonsingular but uniformly tiny matrix (absolute pivot threshold 1e-15) is not judged"]
SHARDS = {"quick": 8, "thorough": 16}
DECIDING = ["P_is_permutation", "L_unit_lower", "multipliers_le_1", "U_upper", "PA_eq_LU", "PA_eq_LU_componentwise", "A_eq_LU_two_output",
            "two_output_L_is_row_permuted", "singular_loud_or_exact"]
MUST_REACH = ["history:inplace_update_then_call", "history:views_of_previous_argument", "perm:noninvolutive", "perm:identity", "singular:evaluated", "singular:exact_step:tall:last",
              "singular:exact_step:square:last", "singular:exact_step:wide:last", "singular:exact_step:tall:first"]

C = 100.0


def cases(tier, seed):
    out = []
    mm = 4 if tier == "quick" else 6
    for m in range(1, mm + 1):
        perms = list(itertools.permutations(range(m)))
        for pi in perms:
            for dn in ((-1, 0, 1) if m > 1 else (0, 1, 2)):
                n = m + dn
                if n < 1:
                    continue
                out.append({"kind": "perm", "cls": f"perm:m{m}", "m": m, "n": n, "pi": list(pi), "seed": seed})
    idx = 0
    for r_ in range(40 if tier == "quick" else 300):
        out.append({"kind": "random", "cls": "random:column_just_above_zero_threshold", "entry": "column_just_above_zero_threshold", "idx": 9 * 10 ** 5 + r_, "seed": seed,
                    "maxd": 6})
    for cls in ("gauss", "diag_dominant", "ties", "int", "scaled_small", "scaled_big", "pure_imag", "sparse_pattern", "layout",
                "herm_gram", "herm_indef_posdiag", "herm_generic", "herm_near_singular_leading_block", "real_symmetric", "hollow", "herm_hollow", "near_tie_pivot", "lower_tri_interchanges", "lower_banded_interchanges", "column_just_above_zero_threshold"):
        for rep in range(6 if tier == "quick" else 120):
            out.append({"kind": "random", "cls": "random:" + cls, "entry": cls, "idx": idx, "seed": seed,
                        "maxd": 8 if tier == "quick" else 20})
            idx += 1
    # size ladder beyond plausible panel widths (8 / 16 / 32), square, tall and wide
    for dims in ([(17, 17), (20, 20), (26, 19), (19, 26), (18, 18), (33, 33), (16, 16), (9, 40), (40, 9)] if tier == "quick" else
                 [(a, b) for a in (9, 16, 17, 18, 24, 31, 32, 33, 34, 48, 49) for b in (9, 16, 17, 18, 33, 40)]):
        for cls in ("gauss", "ties", "layout") if tier == "quick" else ("gauss", "ties", "layout", "int", "pure_imag"):
            out.append({"kind": "random", "cls": "random:" + cls, "entry": cls, "idx": idx, "seed": seed, "maxd": 8, "dims": list(dims)})
            idx += 1
    for k in range(12 if tier == "quick" else 80):
        out.append({"kind": "history", "cls": "history", "idx": idx, "seed": seed})
        idx += 1
    for k, sc in enumerate(("zero_column", "zero_matrix", "dependent_columns", "zero_1x1", "zero_row", "dependent_rows_wide", "zero_later_column", "tiny_scale")):
        for rep in range(3 if tier == "quick" else 12):
            out.append({"kind": "singular", "cls": "singular:" + sc, "sing": sc, "idx": rep, "seed": seed})
    # exact (dyadic) deficiency that first shows at elimination step c, for every c and every shape kind:
    # the guard has to fire at the first, an interior and the LAST diagonal position of tall, square and wide inputs
    shapes = [(2, 1), (3, 2), (4, 3), (5, 2), (5, 3), (2, 2), (3, 3), (4, 4), (2, 3), (3, 5), (1, 1), (1, 3), (3, 1), (6, 2)]
    if tier != "quick":
        shapes += [(6, 5), (7, 3), (5, 5), (4, 6), (8, 2), (9, 4)]
    for (m, n) in shapes:
        for c in range(min(m, n)):
            for rep in range(1 if tier == "quick" else 3):
                out.append({"kind": "singular", "cls": "singular:exact_step", "sing": "exact_step", "m": m, "n": n, "c": c,
                            "idx": rep, "seed": seed})
    return out


def run_case(spec, ctx, R):
    {"perm": _perm, "random": _random, "singular": _singular, "history": _history}[spec["kind"]](spec, ctx, R)


def _history(spec, ctx, R):
    """Call histories inside one process: the same array object factorised again after the caller updated it in place, views of the
    previous argument that share its buffer (transpose, reversed rows), both output modes in sequence, the previous factors overwritten."""
    rng = gen.rng_for(spec["seed"], "c07hist", spec["idx"])
    n = int(rng.integers(2, 7))
    A = refq.randq(rng, n, n)
    ctx.distinct("history", A)
    judge(ctx, R, A, "history:first_call", ["history"], direct=True)
    # in-place update of the same object (rows swapped, one entry changed, then everything rescaled)
    c = refq.fa(A)
    c[[0, n - 1]] = c[[n - 1, 0]].copy()
    c[n // 2, 0] += np.array([1.5, -0.5, 0.25, 2.0])
    judge(ctx, R, A, "history:after_inplace_update", ["history"], direct=True)
    c *= -3.0
    judge(ctx, R, A, "history:after_inplace_rescale", ["history"], direct=True)
    ctx.hit("history:inplace_update_then_call")
    # views that share the buffer of the previous argument
    B = refq.randq(rng, n, n)
    judge(ctx, R, B, "history:parent", ["history"], direct=True)
    judge(ctx, R, B.T, "history:transposed_view_of_previous", ["history"], direct=True)
    judge(ctx, R, B[::-1], "history:reversed_view_of_previous", ["history"], direct=True)
    judge(ctx, R, B[:, ::-1], "history:column_reversed_view_of_previous", ["history"], direct=True)
    if n >= 3:
        judge(ctx, R, B[: n - 1, : n - 1], "history:leading_block_of_previous", ["history"], direct=True)
        judge(ctx, R, B[1:, 1:], "history:trailing_block_of_previous", ["history"], direct=True)
    ctx.hit("history:views_of_previous_argument")
    # the caller overwrites the factors it got back, then asks again
    D = R.decomp
    try:
        L, U, P = D.quaternion_lu(A, return_p=True)
        refq.fa(L)[...] = 9.0
        refq.fa(U)[...] = -9.0
        refq.fa(P)[...] = 0.0
    except Exception:
        pass
    judge(ctx, R, A, "history:after_factors_overwritten", ["history"], direct=True)


def _perm_matrix(pi):
    m = len(pi)
    c = np.zeros((m, m, 4))
    for i, p in enumerate(pi):
        c[i, p, 0] = 1.0          # row i of P*A is row pi[i] of A
    return refq.qa(c)


def _make_LU(rng, m, n, integer=False):
    N = min(m, n)
    Lc = np.zeros((m, N, 4))
    for i in range(m):
        for j in range(min(i, N)):
            v = rng.standard_normal(4)
            v *= (0.1 + 0.7 * rng.random()) / np.linalg.norm(v)
            Lc[i, j] = v
        if i < N:
            Lc[i, i, 0] = 1.0
    Uc = np.zeros((N, n, 4))
    for i in range(N):
        for j in range(i, n):
            v = rng.standard_normal(4)
            if j == i:
                v *= (1.0 + rng.random()) / np.linalg.norm(v)
            Uc[i, j] = v
    return refq.qa(Lc), refq.qa(Uc)


def _dy_unit(rng, lo, hi):
    """single-axis quaternion +-2^k e_a with k in [lo, hi]: its inverse and all products with dyadics are exact"""
    v = np.zeros(4)
    v[int(rng.integers(0, 4))] = float(rng.choice([-1.0, 1.0])) * 2.0 ** int(rng.integers(lo, hi + 1))
    return v


def _exact_deficient(rng, m, n, c, variant):
    """A (m x n) whose column c has no non-zero pivot after c exact elimination steps and is generic elsewhere.

    A = Pr^T (L' U' + E) with L' (m x c) unit lower trapezoidal (single-axis dyadic multipliers of modulus <= 1/2),
    U' (c x n) upper trapezoidal (single-axis dyadic diagonal, dyadic rest) and E non-zero only in rows >= c and
    columns > c.  All arithmetic of the elimination is exact in binary64, so the pivot column is exactly zero."""
    Lc = np.zeros((m, c, 4))
    for i in range(m):
        for j in range(min(i, c)):
            Lc[i, j] = _dy_unit(rng, -3, -1)
        if i < c:
            Lc[i, i, 0] = 1.0
    Uc = np.zeros((c, n, 4))
    for i in range(c):
        for j in range(i, n):
            Uc[i, j] = _dy_unit(rng, 0, 1) if j == i else rng.integers(-4, 5, size=4) / 4.0
    A = refq.fa(refq.matmul(refq.qa(Lc), refq.qa(Uc))).copy() if c else np.zeros((m, n, 4))
    if variant % 3 != 2:          # variant 2: everything to the right of column c is dependent too (rank c exactly)
        A[c:, c + 1:] += rng.integers(-4, 5, size=(m - c, n - c - 1, 4)) / 2.0
    A = A[rng.permutation(m)]
    return refq.qa(np.ascontiguousarray(A))


def judge(ctx, R, A, site, tags=(), expect_pi=None, unique=False, direct=False):
    """Run both output modes on A and judge all structural / reconstruction clauses.  direct=True hands the caller's array object
    itself to the routine (histories: object identity and buffer address matter), otherwise a fresh copy per call."""
    D = R.decomp
    m, n = A.shape
    N = min(m, n)
    nrmA = refq.fro(A)
    A0 = refq.fa(A).copy()
    try:
        L, U, P = D.quaternion_lu(A if direct else A.copy(), return_p=True)
        L2, U2 = D.quaternion_lu(A if direct else A.copy())
    except Exception as e:
        ctx.check("unexpected_exception", False, site=site, tags=tags, detail={"exception": repr(e), "shape": [m, n]})
        return None
    Pc, Lc, Uc = refq.fa(P), refq.fa(L), refq.fa(U)
    # P: permutation matrix with exact entries
    okP = (P.shape == (m, m) and np.all(Pc[..., 1:] == 0) and np.all((Pc[..., 0] == 0) | (Pc[..., 0] == 1))
           and np.all(Pc[..., 0].sum(axis=0) == 1) and np.all(Pc[..., 0].sum(axis=1) == 1))
    ctx.check("P_is_permutation", okP, site=site, tags=tags)
    if not okP:
        return None
    perm = tuple(int(np.argmax(Pc[i, :, 0])) for i in range(m))
    inv = tuple(int(np.argsort(perm)[i]) for i in range(m))
    kind = "identity" if perm == tuple(range(m)) else ("involutive" if perm == inv else "noninvolutive")
    ctx.hit("perm:" + kind, perm if m <= 5 else None)
    tags = list(tags) + [f"perm_{kind}"]
    # L: unit lower trapezoidal, exact ones and zeros
    okL = L.shape == (m, N)
    if okL:
        for i in range(m):
            for j in range(N):
                if i == j:
                    okL &= bool(np.array_equal(Lc[i, j], [1, 0, 0, 0]))
                elif j > i:
                    okL &= bool(np.all(Lc[i, j] == 0))
    ctx.check("L_unit_lower", okL, site=site, tags=tags, detail={"shape": [m, n]})
    if okL and L.size:
        ctx.check("multipliers_le_1", float(refq.absq(L).max()), 1.0 + 64 * refq.EPS, site=site, tags=tags)
    okU = U.shape == (N, n) and all(np.all(Uc[i, j] == 0) for i in range(N) for j in range(min(i, n)))
    ctx.check("U_upper", okU, site=site, tags=tags, detail={"shape": [m, n]})
    if not (okL and okU):
        return None
    LU = refq.matmul(L, U)
    bound = C * max(m, n) * refq.EPS * (refq.fro(L) * refq.fro(U)) + 1e-300
    ctx.check("PA_eq_LU", refq.fro(refq.matmul(P, A) - LU), bound, site=site, tags=tags, detail={"shape": [m, n], "perm": perm})
    # componentwise backward error of Gaussian elimination: |P A - L U| <= c n eps |L| |U| entry by entry (small-but-legitimate entries next to
    # large ones are protected by this clause; a normwise bound is blind to them)
    comp_b = C * max(m, n) * refq.EPS * (refq.absq(L) @ refq.absq(U)) + 1e-300
    comp_r = refq.absq(refq.matmul(P, A) - LU) / comp_b
    ctx.check("PA_eq_LU_componentwise", float(comp_r.max()) if comp_r.size else 0.0, 1.0, site=site, tags=tags,
              detail={"shape": [m, n], "perm": perm, "worst_entry": [int(v) for v in np.unravel_index(int(np.argmax(comp_r)), comp_r.shape)] if comp_r.size else None})
    # two-output mode
    ok2 = L2.shape == (m, N) and U2.shape == (N, n)
    if ok2:
        ctx.check("A_eq_LU_two_output", refq.fro(A - refq.matmul(L2, U2)), bound, site=site, tags=tags,
                  detail={"shape": [m, n], "perm": perm})
        rows3 = sorted(refq.fa(L)[i].tobytes() for i in range(m))
        rows2 = sorted(refq.fa(L2)[i].tobytes() for i in range(m))
        ctx.check("two_output_L_is_row_permuted", rows3 == rows2 and np.array_equal(refq.fa(U2), Uc), site=site, tags=tags)
    else:
        ctx.check("A_eq_LU_two_output", False, site=site, tags=tags, detail={"shapes": [L2.shape, U2.shape]})
    ctx.check("input_unchanged", np.array_equal(refq.fa(A), A0), site=site, tags=tags)
    if expect_pi is not None and unique:
        ctx.check("pivot_order_taken", perm == tuple(expect_pi), site=site, tags=tags, detail={"expected": expect_pi, "got": perm})
    return perm


def _perm(spec, ctx, R):
    m, n, pi = spec["m"], spec["n"], spec["pi"]
    rng = gen.rng_for(spec["seed"], "c07perm", m, n, tuple(pi))
    for variant in ("generic", "int_U", "axis_L_dyadic", "graded_U"):
        L, U = _make_LU(rng, m, n)
        if variant == "graded_U":
            # entries of U (off the diagonal) spread over twelve orders of magnitude: small-but-legitimate data (1e-9 next to 1) that any
            # relative "round-off cleanup" of the trailing block would destroy; the forced pivot order does not depend on them
            Uc = refq.fa(U).copy()
            ex = rng.choice([0.0, -3.0, -6.0, -9.0, -12.0], size=Uc.shape[:2])
            for i in range(min(m, n)):
                ex[i, i] = 0.0
            U = refq.qa(Uc * (10.0 ** ex)[..., None])
        if variant == "axis_L_dyadic":
            # multipliers confined to ONE quaternion axis (real, i, j or k; exact dyadic values) and a real dyadic diagonal of U:
            # all products are exact in floating point, so the computed multipliers have exactly-zero components on the other axes
            ax = int(rng.integers(0, 4))
            Lc = np.zeros((m, min(m, n), 4))
            for i in range(m):
                for j in range(min(i, min(m, n))):
                    Lc[i, j, ax] = float(rng.choice([-1.0, 1.0])) * float(rng.integers(1, 7)) / 8.0
                if i < min(m, n):
                    Lc[i, i, 0] = 1.0
            Uc = np.round(refq.fa(U) * 4.0) / 4.0
            for i in range(min(m, n)):
                Uc[i, i] = [float(rng.integers(2, 5)), 0.0, 0.0, 0.0]
            L, U = refq.qa(Lc), refq.qa(Uc)
        if variant == "int_U":
            Uc = np.round(refq.fa(U) * 3.0)
            for i in range(min(m, n)):
                if not np.any(Uc[i, i]):
                    Uc[i, i, 1] = 2.0
                Uc[i, i] *= 2.0          # diagonal moduli >= 2 > off-diagonal influence handled by |l| <= 0.8
            U = refq.qa(Uc)
        P = _perm_matrix(pi)
        A = refq.matmul(refq.herm(P), refq.matmul(L, U))
        nontriv = tuple(pi) != tuple(range(m)) or m * n > 1
        ctx.distinct(A, nontrivial=nontriv)
        unique = n >= m - 1
        site = "square" if m == n else ("tall" if m > n else "wide")
        judge(ctx, R, A, site, tags=["forced_pivot_order"], expect_pi=pi, unique=unique)
        if variant == "generic":
            # the same forced pivot order on an exactly (power of two) scaled copy: pivoting decisions must not depend on the scale
            # (2^-30 ~ 1e-9 and 2^-40 ~ 1e-12 stay far above the routine's absolute zero-pivot threshold 1e-15; 2^30 large)
            for p2 in (-30, -40, 30):
                judge(ctx, R, A * 2.0 ** p2, site, tags=["forced_pivot_order", "scaled_2^%d" % p2], expect_pi=pi, unique=unique)
    if m == 3 and n == 3 and pi == [1, 2, 0]:
        ctx.sample({"m": m, "n": n, "pi": pi, "A": A, "note": "3-cycle forced by A = P^T L U"})


def _random(spec, ctx, R):
    rng = gen.rng_for(spec["seed"], "c07rand", spec["idx"])
    cls = spec["entry"]
    m, n = (int(x) for x in rng.integers(1, spec["maxd"] + 1, size=2))
    if "dims" in spec:
        m, n = spec["dims"]
        ctx.hit("size:ladder")
    if cls == "gauss":
        A = refq.randq(rng, m, n)
    elif cls == "diag_dominant":
        A = refq.randq(rng, m, n) + 4.0 * max(m, n) * refq.diagq(np.ones(min(m, n)), m, n)
    elif cls == "ties":
        A = refq.unit_quats(rng, m * n).reshape(m, n)
    elif cls == "int":
        A = gen.entries(rng, "int", m, n)
        if embed.rank(A) < min(m, n):
            A = A + refq.diagq(np.full(min(m, n), 7.0), m, n)
    elif cls == "scaled_small":
        A = refq.randq(rng, m, n) * float(rng.choice([1e-6, 1e-9, 1e-12]))
    elif cls == "scaled_big":
        A = refq.randq(rng, m, n) * 1e6
    elif cls == "pure_imag":
        A = gen.entries(rng, "pure_imag", m, n)
    elif cls == "sparse_pattern":
        A = gen.entries(rng, "sparse", m, n) + refq.diagq(1.0 + rng.random(min(m, n)), m, n)
    elif cls == "layout":
        A = gen.layout(refq.randq(rng, m, n), str(rng.choice(gen.LAYOUTS)))
    elif cls in ("herm_gram", "herm_indef_posdiag", "herm_generic", "herm_near_singular_leading_block", "real_symmetric", "hollow", "herm_hollow", "near_tie_pivot", "lower_tri_interchanges", "lower_banded_interchanges", "column_just_above_zero_threshold"):
        # square HERMITIAN inputs (Gram matrices, indefinite with a positive diagonal, generic, a leading 2x2 block that is nearly singular, real
        # symmetric): symmetric structure does not excuse an elimination from its row search - the largest entry of a column need not be on
        # the diagonal, and |multiplier| <= 1 / P A = L U must hold like for any other matrix
        n = m = max(2, min(m, n) if min(m, n) >= 2 else int(rng.integers(2, spec["maxd"] + 1)))
        B = refq.randq(rng, n, n)
        if cls == "herm_gram":
            A = refq.symmetrize(refq.matmul(refq.herm(B), B))
        elif cls == "herm_generic":
            A = refq.symmetrize(B + refq.herm(B))
        elif cls in ("lower_tri_interchanges", "lower_banded_interchanges"):
            # lower triangular / lower banded input whose diagonal is small against the entries below it: the row in pivot position is exactly zero
            # to the right of the diagonal, and the row search replaces it by a row that is not
            c = refq.fa(refq.randq(rng, n, n)).copy() * np.tril(np.ones((n, n)))[..., None]
            if cls == "lower_banded_interchanges":
                c = c * (np.subtract.outer(np.arange(n), np.arange(n)) <= 2)[..., None]
            c[np.arange(n), np.arange(n)] *= 0.3
            A = refq.qa(c)
        elif cls == "column_just_above_zero_threshold":
            # one column scaled into the decade just above the routine's absolute zero-pivot threshold (1e-15): still data - the row search must
            # pick the largest entry, multipliers stay <= 1 (below the threshold the routine refuses loudly, which is not judged here)
            A = refq.randq(rng, n, n)
            j_ = int(rng.integers(0, n))
            A[:, j_] = A[:, j_] * float(rng.choice([1.5e-15, 2e-15, 3e-15, 5e-15]))
        elif cls == "near_tie_pivot":
            # NEAR tie in the row search (not a tie): the entry on the diagonal is smaller than the column maximum by a relative 1e-5 .. 1e-12,
            # at step 0 (first column) and, through a decoupled leading entry, at step 1: the interchange must still happen (|multiplier| <= 1)
            A = refq.randq(rng, n, n) * 0.4
            d_ = float(rng.choice([4e-6, 3e-7, 1e-9, 1e-12, 9e-6]))
            step = int(rng.integers(0, 2)) if n >= 3 else 0
            if step == 1:
                A[0, 1:] = np.quaternion(0, 0, 0, 0); A[1:, 0] = np.quaternion(0, 0, 0, 0); A[0, 0] = np.quaternion(3, 0, 0, 0)
            k_ = int(rng.integers(step + 1, n))
            A[step, step] = refq.unit_quats(rng, 1)[0] * (2.0 * (1.0 - d_))
            A[k_, step] = refq.unit_quats(rng, 1)[0] * 2.0
        elif cls in ("hollow", "herm_hollow"):       # exactly zero diagonal: every leading entry met without pivoting is zero or fill-in
            c = refq.fa(B if cls == "hollow" else refq.symmetrize(B + refq.herm(B))).copy()
            c[np.arange(n), np.arange(n)] = 0.0
            A = refq.qa(c)
        elif cls == "real_symmetric":
            c = np.zeros((n, n, 4)); c[..., 0] = rng.standard_normal((n, n)); c[..., 0] = c[..., 0] + c[..., 0].T
            A = refq.qa(c)
        else:
            A = refq.symmetrize(B + refq.herm(B))
            c = refq.fa(A).copy()
            c[np.arange(n), np.arange(n), 0] = 0.2 + rng.random(n)           # positive diagonal, large off-diagonal entries: indefinite
            if cls == "herm_near_singular_leading_block":
                q = c[0, 1] / max(float(np.linalg.norm(c[0, 1])), 1e-300)
                c[0, 1] = q; c[1, 0] = q * np.array([1.0, -1.0, -1.0, -1.0])
                c[0, 0, 0] = 1.0; c[1, 1, 0] = 1.0 + float(rng.choice([1e-11, 1e-6, 1e-3]))
            A = refq.symmetrize(refq.qa(c))
    else:
        raise ValueError(cls)
    s = embed.svals(A)
    if len(s) and s[-1] < 1e-8 * s[0] and cls != "column_just_above_zero_threshold":      # (that class is ill-conditioned by construction, full rank)
        ctx.skip("PA_eq_LU", "near-singular random draw")
        return
    ctx.distinct(A)
    site = "square" if m == n else ("tall" if m > n else "wide")
    judge(ctx, R, A, site, tags=[cls])
    if spec["idx"] % 10 == 0:
        ctx.sample({"class": cls, "shape": [m, n], "A": A})


def _singular(spec, ctx, R):
    D = R.decomp
    rng = gen.rng_for(spec["seed"], "c07sing", spec["sing"], spec["idx"])
    sc = spec["sing"]
    m, n = (int(x) for x in rng.integers(2, 6, size=2))
    if sc == "zero_column":
        A = refq.randq(rng, m, n)
        A[:, 0] = np.quaternion(0, 0, 0, 0)
    elif sc == "zero_later_column":
        m = n = int(rng.integers(3, 6))
        A = refq.randq(rng, m, n)
        A[:, 1] = np.quaternion(0, 0, 0, 0)
    elif sc == "zero_matrix":
        A = refq.zeros(m, n)
    elif sc == "dependent_columns":
        m = n = int(rng.integers(2, 6))
        A = refq.randq(rng, m, n)
        q = refq.randq(rng, 1, 1)[0, 0]
        A[:, n - 1] = A[:, 0] * q             # right-linearly dependent
    elif sc == "zero_1x1":
        A = refq.zeros(1, 1)
    elif sc == "zero_row":
        m = n = int(rng.integers(2, 6))
        A = refq.randq(rng, m, n)
        A[m - 1, :] = np.quaternion(0, 0, 0, 0)
    elif sc == "dependent_rows_wide":
        m, n = 3, 5
        A = refq.randq(rng, m, n)
        A[2, :] = refq.randq(rng, 1, 1)[0, 0] * A[0, :]
    elif sc == "tiny_scale":
        # a well-conditioned matrix scaled EXACTLY by 2^p into the range where the squared modulus of a pivot is subnormal / underflows:
        # the routine may refuse (its pivot threshold is absolute), but factors that come back have to reproduce A (judged after exact
        # back-scaling of U)
        m, n = [(4, 4), (5, 3), (3, 5), (2, 2), (6, 6)][spec["idx"] % 5]
        A0 = refq.randq(rng, m, n)
        for p2 in (-60, -500, -518, -524, -530, -533, -536, -540, -600):
            A = A0 * 2.0 ** p2
            for mode in (True, False):
                site = f"tiny_scale_2^{p2}:{'3out' if mode else '2out'}"
                try:
                    with np.errstate(all="ignore"):
                        res = D.quaternion_lu(A.copy(), return_p=mode)
                except Exception as e:
                    ctx.hit("singular:raised", type(e).__name__)
                    ctx.check("singular_loud_or_exact", True, site=site)
                    continue
                ctx.hit("tiny_scale:returned")
                L, U = res[0], res[1] * 2.0 ** (-p2)
                lhs = refq.matmul(res[2], A0) if mode else A0
                ok_fin = refq.is_finite(L) and refq.is_finite(U)
                bound = (C * max(m, n) * refq.EPS * (refq.fro(L) * refq.fro(U) + refq.fro(A0)) + 1e-300) if ok_fin else 0.0
                ctx.check("singular_loud_or_exact", refq.fro(lhs - refq.matmul(L, U)) if ok_fin else float("inf"), bound, site=site,
                          detail={"shape": [m, n], "scale": f"2^{p2}"})
                if ok_fin and L.size:
                    ctx.check("multipliers_le_1", float(refq.absq(L).max()), 1.0 + 64 * refq.EPS, site=site)
        ctx.hit("singular:evaluated")
        return
    elif sc == "exact_step":
        A = _exact_deficient(rng, spec["m"], spec["n"], spec["c"], spec["idx"])
        m, n = A.shape
        kind = "tall" if m > n else ("square" if m == n else "wide")
        pos = "last" if spec["c"] == min(m, n) - 1 else ("first" if spec["c"] == 0 else "interior")
        ctx.hit(f"singular:exact_step:{kind}:{pos}")
    ctx.distinct(sc, A)
    m, n = A.shape
    for mode in (True, False):
        site = f"{sc}:{'3out' if mode else '2out'}"
        try:
            res = D.quaternion_lu(A.copy(), return_p=mode)
        except Exception as e:
            ctx.hit("singular:raised", type(e).__name__)
            ctx.hit("singular:evaluated")
            ctx.check("singular_loud_or_exact", True, site=site)
            continue
        ctx.hit("singular:returned")
        ctx.hit("singular:evaluated")
        if mode:
            L, U, P = res
            lhs = refq.matmul(P, A)
        else:
            L, U = res
            lhs = A
        ok_fin = refq.is_finite(L) and refq.is_finite(U)
        bound = (C * max(m, n) * refq.EPS * (refq.fro(L) * refq.fro(U) + refq.fro(A)) + 1e-300) if ok_fin else 0.0
        err = refq.fro(lhs - refq.matmul(L, U)) if ok_fin else float("inf")
        ctx.check("singular_loud_or_exact", err, bound, site=site, detail={"shape": [m, n], "class": sc})
    if spec["idx"] == 0:
        ctx.sample({"singular_class": sc, "A": A})
