"""C02 Real and complex embeddings (DESIGN.md section 7, C02)."""
from __future__ import annotations

import itertools

import numpy as np
import quaternion

from .. import gen
from ..oracle import embed, refq

ID = "C02"
LEVEL = "exploration"
EXHAUSTIVE = True
EXHAUSTIVE_NOTE = "every basis unit at every position of every shape up to 3x3 (4x4 thorough) for all three embeddings; entry classes sampled"
RULE = ("(a) exhaustive: e_a at (i,j) for all shapes <= 3x3, all positions, all 4 units: real_expand / Realp / complex adjoint "
        "compared entrywise (==) with embeddings computed from the left-regular representation L(q)[a,b]=(q e_b)_a; "
        "(b) sampled entry classes x shapes: entrywise equality, homomorphism E(AB)=E(A)E(B) against the oracle product, "
        "E(A^H)=E(A)^T/^H, real-linearity on dyadic data, norm factor 2 / sqrt2, bit-for-bit round trips (also on 5 memory "
        "layouts), A2A0123 on unique-id data, component split/merge dense and sparse. distinct = input digest; non-trivial = non-zero input")
ASSUMPTIONS = ["numpy-quaternion scalar multiply defines L(q)", "LAPACK-free: all comparisons are exact or rigorous forward bounds"]
SHARDS = {"quick": 4, "thorough": 8}
DECIDING = ["expand_entrywise", "realp_entrywise", "adjoint_entrywise", "homomorphism", "star", "linearity",
            "norm_factor", "roundtrip_bits", "a2a0123", "components_roundtrip"]


def _comps(A):
    c = quaternion.as_float_array(A)
    return [np.ascontiguousarray(c[..., k]) for k in range(4)]


def cases(tier, seed):
    out = []
    md = 3 if tier == "quick" else 6
    for m, n in itertools.product(range(1, md + 1), repeat=2):
        out.append({"kind": "basis", "cls": "basis", "shape": [m, n]})
    nrep = 3 if tier == "quick" else 40
    idx = 0
    for cls in gen.ENTRY_CLASSES:
        for rep in range(nrep):
            out.append({"kind": "random", "cls": "random:" + cls, "entry": cls, "idx": idx, "seed": seed,
                        "maxd": 6 if tier == "quick" else 24})
            idx += 1
    # extreme magnitudes (squares under/overflow): only the clauses that copy / negate / permute data are judged (exact, T1)
    for cls in ("tiny170", "tiny300", "subnormal", "huge300", "mixed_extreme", "signed_zeros"):
        for rep in range(nrep):
            out.append({"kind": "extreme", "cls": "extreme:" + cls, "entry": cls, "idx": idx, "seed": seed, "maxd": 6 if tier == "quick" else 24})
            idx += 1
    # size ladder: more than 64 / 256 / 1024 entries, sides above 8 / 16 / 32, in every memory layout of the random cases
    for dims in ([(9, 10), (13, 5), (6, 12), (1, 70), (70, 1), (17, 17), (33, 4), (34, 33)] if tier == "quick" else
                 [(a, b) for a in (1, 5, 9, 16, 17, 33, 64, 65) for b in (1, 6, 12, 17, 33, 70)]):
        for cls in ("gauss", "int", "sparse"):
            out.append({"kind": "random", "cls": "random:" + cls, "entry": cls, "idx": idx, "seed": seed, "maxd": 6, "dims": list(dims)})
            idx += 1
    out.append({"kind": "misc", "cls": "misc", "seed": seed})
    return out


def run_case(spec, ctx, R):
    {"basis": _basis, "random": _random, "misc": _misc, "extreme": _extreme}[spec["kind"]](spec, ctx, R)


def _eq(a, b):
    a = np.asarray(a)
    b = np.asarray(b)
    return a.shape == b.shape and np.array_equal(a, b)


def _basis(spec, ctx, R):
    U = R.utils
    m, n = spec["shape"]
    for i, j, a in itertools.product(range(m), range(n), range(4)):
        c = np.zeros((m, n, 4))
        c[i, j, a] = 1.0
        A = refq.qa(c)
        ctx.distinct("basis", m, n, i, j, a)
        ctx.check("expand_entrywise", _eq(U.real_expand(A.copy()), embed.real_interleaved(A)), site="real_expand",
                  detail={"unit": a, "pos": [i, j], "shape": [m, n]})
        ctx.check("realp_entrywise", _eq(U.Realp(*_comps(A)), embed.real_blocked(A)), site="Realp",
                  detail={"unit": a, "pos": [i, j], "shape": [m, n]})
        if m == n:
            ctx.check("adjoint_entrywise", _eq(U.quaternion_to_complex_adjoint(A.copy()), embed.chi(A)),
                      site="quaternion_to_complex_adjoint", detail={"unit": a, "pos": [i, j], "shape": [m, n]})
        ctx.check("roundtrip_bits", _beq(refq.fa(U.real_contract(U.real_expand(A.copy()), m, n)), c), site="contract(expand)")
        AHb = refq.herm(A)          # conjugation turns +0.0 vector parts into -0.0: the round trip is bit-for-bit, signs of zeros included
        ctx.check("roundtrip_bits", _beq(refq.fa(U.real_contract(U.real_expand(AHb.copy()), n, m)), refq.fa(AHb)), site="contract(expand):conjugate_transpose")
    ctx.sample({"shape": [m, n], "enumerated": "e_a at (i,j) for all i,j,a", "count": m * n * 4})


def _embeddings(U, A):
    out = {"real_expand": (U.real_expand(A.copy()), embed.real_interleaved(A), "T"),
           "Realp": (U.Realp(*_comps(A)), embed.real_blocked(A), "T")}
    if A.shape[0] == A.shape[1]:
        out["adjoint"] = (U.quaternion_to_complex_adjoint(A.copy()), embed.chi(A), "H")
    return out


def _extreme_entries(rng, cls, m, n):
    c = rng.standard_normal((m, n, 4))
    if cls == "tiny170":
        c *= 1e-170
    elif cls == "tiny300":
        c *= 1e-300
    elif cls == "subnormal":
        c *= 1e-315
    elif cls == "huge300":
        c *= 1e300
    elif cls == "mixed_extreme":
        c *= 10.0 ** rng.choice([-300.0, -170.0, -20.0, 0.0, 20.0, 150.0, 300.0], size=(m, n, 1))
        c[rng.random((m, n)) < 0.3] = 0.0
    elif cls == "signed_zeros":
        c = np.where(rng.random((m, n, 4)) < 0.5, 0.0, -0.0) + np.where(rng.random((m, n, 4)) < 0.3, c, 0.0)
    return refq.qa(c)


def _beq(a, b):
    """bit-for-bit equality of two float arrays (distinguishes -0.0 from +0.0, unlike ==)"""
    a, b = np.asarray(a, dtype=float), np.asarray(b, dtype=float)
    return a.shape == b.shape and bool(np.array_equal(_bits(a), _bits(b)))


def _mixed_zero_signs(rng, A):
    """A with a random subset of its components replaced by -0.0 / +0.0 (a negative zero next to non-negative components)."""
    c = refq.fa(A).copy()
    msk = rng.random(c.shape) < 0.35
    c[msk] = np.where(rng.random(int(msk.sum())) < 0.6, -0.0, 0.0)
    return refq.qa(c)


def _bits(x):
    return np.ascontiguousarray(np.asarray(x, dtype=float)).view(np.uint64)


def _extreme(spec, ctx, R):
    """Exact (T1) clauses on entries whose squares under- or overflow, on subnormals and on signed zeros."""
    U = R.utils
    rng = gen.rng_for(spec["seed"], "c02x", spec["idx"])
    cls = spec["entry"]
    for rep in range(3):
        m, n = (int(x) for x in rng.integers(1, spec["maxd"] + 1, size=2))
        if rep == 0:
            n = m
        A = _extreme_entries(rng, cls, m, n)
        ctx.distinct(A)
        if rep == 0 and spec["idx"] % 4 == 0:
            ctx.sample({"class": cls, "A": A})
        det = {"class": cls, "shape": [m, n]}
        with np.errstate(all="ignore"):
            EA = _embeddings(U, A)
            clause = {"real_expand": "expand_entrywise", "Realp": "realp_entrywise", "adjoint": "adjoint_entrywise"}
            for name, (got, ref, star) in EA.items():
                ctx.check(clause[name], _eq(got, ref), site=name + ":extreme", detail=det)
                gH = _embeddings(U, refq.herm(A))[name][0]
                ctx.check("star", _eq(gH, got.T if star == "T" else got.conj().T), site=name + ":extreme", detail=det)
            # round trip bit-for-bit (also the sign of zeros), injectivity, exact homogeneity with a power of two
            back = U.real_contract(U.real_expand(A.copy()), m, n)
            ctx.check("roundtrip_bits", bool(np.array_equal(_bits(refq.fa(back)), _bits(refq.fa(A)))), site="contract(expand):extreme", detail=det)
            if np.any(refq.fa(A) != 0):
                ctx.check("injective", bool(np.any(U.real_expand(A.copy()) != 0)), site="real_expand:extreme", detail=det)
            sc = 2.0 ** int(rng.integers(-3, 4))
            ctx.check("linearity", _eq(U.real_expand(A * sc), sc * U.real_expand(A.copy())), site="real_expand:extreme:power_of_two", detail=det)
            S0 = R.solver.QGMRESSolver()
            cs = S0._quat_to_components(A.copy())
            ctx.check("components_roundtrip", bool(np.array_equal(_bits(refq.fa(S0._components_to_quat(*cs))), _bits(refq.fa(A)))),
                      site="_quat_to_components:extreme", detail=det)


def _random(spec, ctx, R):
    U = R.utils
    rng = gen.rng_for(spec["seed"], "c02", spec["idx"])
    cls = spec["entry"]
    maxd = spec["maxd"]
    for rep in range(3):
        m, k, n = (int(x) for x in rng.integers(1, maxd + 1, size=3))
        if rep == 0:
            k = m      # square A so that the adjoint is exercised
        if "dims" in spec and rep == 1:
            m, k = spec["dims"]
            n = int(rng.integers(1, 4))
            ctx.hit("size:ladder")
        A = gen.entries(rng, cls, m, k)
        B = gen.entries(rng, cls if cls not in ("huge", "tiny") else "gauss", k, n if rep else k)
        n = B.shape[1]
        ctx.distinct(A, B, nontrivial=(cls != "zeros"))
        if rep == 0 and spec["idx"] % 5 == 0:
            ctx.sample({"class": cls, "A": A})
        EA = _embeddings(U, A)
        clause = {"real_expand": "expand_entrywise", "Realp": "realp_entrywise", "adjoint": "adjoint_entrywise"}
        for name, (got, ref, star) in EA.items():
            ctx.check(clause[name], _eq(got, ref), site=name, detail={"class": cls, "shape": [m, k]})
            # E(A^H) = E(A)^T resp. ^H, exactly
            AH = refq.herm(A)
            gH = _embeddings(U, AH)[name][0]
            want = got.T if star == "T" else got.conj().T
            ctx.check("star", _eq(gH, want), site=name)
            # norm factor
            f = refq.fro(A)
            fac = 2.0 if star == "T" else np.sqrt(2.0)
            ctx.check("norm_factor", abs(float(np.linalg.norm(got)) - fac * f),
                      16 * (m * k + 4) * refq.EPS * fac * f + 1e-300, site=name)
        # homomorphism against the oracle product (distinguishes left/right representations)
        if cls not in ("huge",):
            AB = refq.matmul(A, B)
            EB = _embeddings(U, B)
            EAB = _embeddings(U, AB)
            scale = float((refq.absq(A) @ refq.absq(B)).max()) if A.size and B.size else 0.0
            for name in EA:
                if name not in EB or name not in EAB:
                    continue
                prod = EA[name][0] @ EB[name][0]
                dev = np.abs(prod - EAB[name][0]).max()
                ctx.check("homomorphism", dev, 64 * (4 * k + 2) * refq.EPS * scale + 1e-300, site=name,
                          detail={"class": cls, "shape": [m, k, n]})
            # the same identity with the product formed by the LIBRARY (what a user composing the two would see); the contraction of the
            # real product is the library's product
            try:
                ABl = U.quat_matmat(A.copy(), B.copy())
                ELl = _embeddings(U, ABl)
                for name in EA:
                    if name in EB and name in ELl:
                        dev = np.abs(EA[name][0] @ EB[name][0] - ELl[name][0]).max()
                        ctx.check("homomorphism", dev, 64 * (4 * k + 2) * refq.EPS * scale + 1e-300, site=name + ":library_product",
                                  detail={"class": cls, "shape": [m, k, n]})
                back = U.real_contract(EA["real_expand"][0] @ EB["real_expand"][0], m, n)
                ctx.check("homomorphism", float(refq.absq(back - ABl).max()), 64 * (4 * k + 2) * refq.EPS * scale + 1e-300,
                          site="real_contract(expand*expand):library_product", detail={"class": cls})
            except Exception as e:
                ctx.check("homomorphism", False, site="library_product", detail={"exception": repr(e)[:200]})
        # the product homomorphism with the LIBRARY's product along every storage path (dense, sparse containers, operator forms, the component-
        # form kernel with ndarray and scipy.sparse planes) on operands whose populated components form each of the 15 non-empty subsets of
        # {w, i, j, k} (the other planes exactly zero / without stored entries): E(A) E(B) = E(product(A, B))
        if rep < 2:
            from . import c01 as _c01
            sa = gen.AXES_SUBSETS[(spec["idx"] * 7 + rep * 5) % 15]
            sb = gen.AXES_SUBSETS[(spec["idx"] * 11 + rep * 3 + 4) % 15]
            Ap_, Bp_ = gen.entries(rng, "axes:" + sa, m, k), gen.entries(rng, "axes:" + sb, k, n)
            ctx.distinct("axes", Ap_, Bp_)
            want = U.real_expand(Ap_.copy()) @ U.real_expand(Bp_.copy())
            sc_ = float((refq.absq(Ap_) @ refq.absq(Bp_)).max()) if Ap_.size and Bp_.size else 0.0
            for path in _c01.PATHS:
                if path == "dd_1d" and n != 1:
                    continue
                try:
                    Cp = _c01.product(R, path, Ap_, Bp_)
                    dev = float(np.abs(U.real_expand(Cp) - want).max())
                except Exception as e:
                    ctx.check("homomorphism", False, site="library_product:" + path, detail={"exception": repr(e)[:200], "axes": [sa, sb]})
                    continue
                ctx.check("homomorphism", dev, 64 * (4 * k + 2) * refq.EPS * sc_ + 1e-300, site="library_product:" + path,
                          tags=["axes_left:" + sa], detail={"axes": [sa, sb], "shape": [m, k, n]})
            ctx.hit("inputs:component_subsets")
        # real-linearity on dyadic data (exact)
        Ai = gen.entries(rng, "int", m, k)
        Bi = gen.entries(rng, "int", m, k)
        al, be = float(rng.choice([0.5, -2.0, 3.0, 0.25])), float(rng.choice([1.0, -0.5, 4.0]))
        Ci = al * Ai + be * Bi
        for name in EA:
            ea, eb, ec = _embeddings(U, Ai)[name][0], _embeddings(U, Bi)[name][0], _embeddings(U, Ci)[name][0]
            ctx.check("linearity", _eq(ec, al * ea + be * eb), site=name)
        # round trip, bit for bit, in every memory layout
        for lay in gen.LAYOUTS:
            A2 = gen.layout(A, lay)
            try:
                back = U.real_contract(U.real_expand(A2), m, k)
                ok = back.dtype == np.quaternion and _beq(refq.fa(back), refq.fa(A))
                det = None
            except Exception as e:
                ok, det = False, {"exception": repr(e)}
            ctx.check("roundtrip_bits", ok, site="contract(expand):" + lay, detail=det)
        # contraction of the oracle's embedding
        ctx.check("roundtrip_bits", _eq(refq.fa(U.real_contract(embed.real_interleaved(A), m, k)), refq.fa(A)),
                  site="contract(oracle_embedding)")      # value level: the oracle embedding does not promise the sign of its zeros
        for lab, Z in (("conjugate_transpose", refq.herm(A)), ("negated", -A), ("mixed_signed_zeros", _mixed_zero_signs(rng, A))):
            back = U.real_contract(U.real_expand(Z.copy()), Z.shape[0], Z.shape[1])
            ctx.check("roundtrip_bits", _beq(refq.fa(back), refq.fa(Z)), site="contract(expand):" + lab)
        # component split / merge of the Krylov solver
        S = R.solver.QGMRESSolver()
        c4 = S._quat_to_components(A.copy())
        ctx.check("components_roundtrip", all(_eq(c4[t], refq.fa(A)[..., t]) for t in range(4)), site="_quat_to_components:dense")
        ctx.check("components_roundtrip", _eq(refq.fa(S._components_to_quat(*c4)), refq.fa(A)), site="_components_to_quat")
        c4s = S._quat_to_components(R.sparse_from_dense(A))
        ctx.check("components_roundtrip", all(_eq(np.asarray(c4s[t]), refq.fa(A)[..., t]) for t in range(4)),
                  site="_quat_to_components:sparse")
        c4t = S._quat_to_components(tuple(_comps(A)))
        ctx.check("components_roundtrip", all(_eq(c4t[t], refq.fa(A)[..., t]) for t in range(4)), site="_quat_to_components:tuple")
        # the same four planes in the other containers a caller may hold them in (list, one stacked (4, m, n) array): a pass-through
        for lab, cont in (("list", list(_comps(A))), ("stacked_ndarray", np.stack(_comps(A)))):
            try:
                c4x = S._quat_to_components(cont)
                okx = len(c4x) == 4 and all(np.shape(c4x[t]) == (m, k) and _eq(np.asarray(c4x[t]), refq.fa(A)[..., t]) for t in range(4))
            except Exception as e:
                okx = False
            ctx.check("components_roundtrip", okx, site="_quat_to_components:" + lab, detail={"shape": [m, k]})
        # shapes in which a dimension coincides with the number of components (4): m = 4, n = 4, both
        for (m4, n4) in ((4, 4), (3, 4), (4, 3), (4, 1), (1, 4), (6, 4)):
            A4 = gen.entries(rng, "gauss", m4, n4)
            for lab, cont in (("quaternion", A4.copy()), ("tuple", tuple(_comps(A4))), ("stacked_ndarray", np.stack(_comps(A4)))):
                try:
                    c4x = S._quat_to_components(cont)
                    okx = len(c4x) == 4 and all(np.shape(c4x[t]) == (m4, n4) and _eq(np.asarray(c4x[t]), refq.fa(A4)[..., t]) for t in range(4))
                    okx = okx and _eq(refq.fa(S._components_to_quat(*c4x)), refq.fa(A4))
                except Exception as e:
                    okx = False
                ctx.check("components_roundtrip", okx, site="_quat_to_components:dimension_equals_4:" + lab, detail={"shape": [m4, n4]})


def _misc(spec, ctx, R):
    U = R.utils
    rng = gen.rng_for(spec["seed"], "c02misc")
    # A2A0123 on unique ids laid out [P0 P2 P1 P3]
    for m, n in itertools.product(range(1, 5), repeat=2):
        P = [np.arange(m * n, dtype=float).reshape(m, n) + 1000.0 * t for t in range(4)]
        M = np.hstack([P[0], P[2], P[1], P[3]])
        ctx.distinct("a2a", m, n)
        r = U.A2A0123(M)
        ctx.check("a2a0123", len(r) == 4 and all(_eq(r[t], P[t]) for t in range(4)), site="A2A0123",
                  detail={"shape": [m, n]})
    # EMPTY shapes (a dimension equal to zero: what slicing A[:0], A[:, k:k] or an empty selection produces).  "Every shape" includes them; the
    # representations of an empty matrix are the empty matrices of the expanded shapes and the round trip returns an empty quaternion matrix
    for m, n in ((0, 3), (3, 0), (0, 0), (0, 1), (1, 0), (0, 5), (2, 0)):
        E = np.zeros((m, n), dtype=np.quaternion)
        ctx.distinct("empty", m, n)
        try:
            Rr = np.asarray(U.real_expand(E))
            ok = Rr.shape == (4 * m, 4 * n)
            ctx.check("expand_entrywise", ok, site="real_expand:empty_shape", detail={"shape": [m, n], "got": list(Rr.shape)})
            back = U.real_contract(Rr, m, n)
            ctx.check("roundtrip_bits", np.shape(back) == (m, n) and np.asarray(back).dtype == np.quaternion, site="real_contract:empty_shape",
                      detail={"shape": [m, n], "got": list(np.shape(back))})
            back2 = U.real_contract(np.zeros((4 * m, 4 * n)), m, n)
            ctx.check("roundtrip_bits", np.shape(back2) == (m, n), site="real_contract:empty_shape:fresh_array", detail={"shape": [m, n]})
        except Exception as e:
            ctx.check("roundtrip_bits", False, site="real_contract:empty_shape", detail={"shape": [m, n], "exception": repr(e)[:200]})
        try:
            Rp = np.asarray(U.Realp(*[np.zeros((m, n)) for _ in range(4)]))
            ctx.check("realp_entrywise", Rp.shape == (4 * m, 4 * n), site="Realp:empty_shape", detail={"shape": [m, n], "got": list(Rp.shape)})
        except Exception as e:
            ctx.check("realp_entrywise", False, site="Realp:empty_shape", detail={"shape": [m, n], "exception": repr(e)[:200]})
        if m == n:
            try:
                Ad = np.asarray(U.quaternion_to_complex_adjoint(E))
                ctx.check("adjoint_entrywise", Ad.shape == (2 * n, 2 * n), site="complex_adjoint:empty_shape", detail={"got": list(Ad.shape)})
            except Exception as e:
                ctx.check("adjoint_entrywise", False, site="complex_adjoint:empty_shape", detail={"exception": repr(e)[:200]})
        ctx.hit("shape:empty")
    # Realp scalar branch (used by ggivens) against the 4x4 L(q)
    for rep in range(40):
        q = refq.randq(rng, 1, 1)[0, 0] if rep >= 8 else [np.quaternion(1, 0, 0, 0), np.quaternion(0, 1, 0, 0),
                                                             np.quaternion(0, 0, 1, 0), np.quaternion(0, 0, 0, 1),
                                                             np.quaternion(1, 2, 3, 4), np.quaternion(0, 0, 0, 0),
                                                             np.quaternion(-1, 0, 2, 0), np.quaternion(0, -3, 0, 5)][rep]
        ctx.distinct("realp_scalar", q.w, q.x, q.y, q.z)
        got = U.Realp(float(q.w), float(q.x), float(q.y), float(q.z))
        ctx.check("realp_entrywise", _eq(got, embed.Lq(q)), site="Realp:scalar")
    # the same values in other numeric types: Python ints / numpy scalars in the scalar form, integer or float32 component
    # planes mixed with float64 planes in the matrix form (the embedding only copies and negates, so the result must carry
    # every value exactly, whatever the dtype of the plane it came from)
    for rep in range(24):
        comp = [float(v) for v in rng.integers(-4, 5, size=4)]
        frac = [v + (0.5 if rng.random() < 0.6 else 0.0) for v in rng.integers(-3, 4, size=4)]
        mix = [int(comp[0]) if rep % 2 == 0 else frac[0], frac[1], int(comp[2]) if rep % 3 == 0 else frac[2], frac[3]]
        qm = np.quaternion(*[float(v) for v in mix])
        forms = {"python_mixed": mix, "numpy_scalars": [np.float64(v) for v in mix], "int_real_part": [0, frac[1], frac[2], frac[3]]}
        for lab, vals in forms.items():
            qq = np.quaternion(*[float(v) for v in vals])
            try:
                got = np.asarray(U.Realp(*vals), dtype=float)
                ok = _eq(got, embed.Lq(qq))
            except Exception as e:
                ok = False
            ctx.check("realp_entrywise", ok, site="Realp:scalar:" + lab, detail={"values": [repr(v) for v in vals]})
        m, n = int(rng.integers(1, 4)), int(rng.integers(1, 4))
        planes_f = [np.round(rng.standard_normal((m, n)) * 4.0) / 2.0 for _ in range(4)]      # multiples of 1/2
        ip = int(rng.integers(0, 4))
        planes = [p.copy() for p in planes_f]
        planes[ip] = np.round(planes[ip]).astype([np.int64, np.int32, np.float32, np.int8][rep % 4])   # one plane in another dtype
        planes_f[ip] = planes[ip].astype(float)
        Aq = refq.qa(np.stack(planes_f, axis=-1))
        ctx.distinct("realp_mixed_dtype", Aq, ip, rep % 4)
        try:
            got = np.asarray(U.Realp(*planes), dtype=float)
            ok = _eq(got, embed.real_blocked(Aq))
        except Exception as e:
            ok = False
        ctx.check("realp_entrywise", ok, site="Realp:mixed_dtype_planes", detail={"plane": ip, "dtype": str(planes[ip].dtype), "shape": [m, n]})
    # contraction rejects a wrongly-sized matrix (shape coupling), accepts the right one
    A = refq.randq(rng, 2, 3)
    E = embed.real_interleaved(A)
    ctx.check("roundtrip_bits", _eq(refq.fa(U.real_contract(E, 2, 3)), refq.fa(A)), site="contract(oracle_embedding)")
    ctx.sample({"a2a0123": "unique-id blocks [P0 P2 P1 P3] for shapes 1..4 x 1..4", "realp_scalar": 40})
