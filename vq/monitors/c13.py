"""C13 Sketch-and-project, hybrid and CGNE solvers (DESIGN.md section 7, C13)."""
from __future__ import annotations

import functools

import numpy as np

from .. import gen, reach, repo
from ..oracle import embed, refq

ID = "C13"
LEVEL = "exploration"
RULE = ("full-column-rank (m >= n) and full-row-rank (m <= n) inputs U diag(s) V^H with cond in {1, 10, 1e2, 1e3}, m, n = 1..6 quick / 1..10 "
        "thorough, scaled 1e-2..1e2; RandomizedSketchProjectPseudoinverse (compute, compute_column_variant with column_solver qr / spd, "
        "compute_row_variant; block size 1..min(m,n); test sketch size 2..8), HybridRSPNewtonSchulz (hyperpower order 2, 3, 4, 8; T = 1, 5; "
        "qr / spd), CGNEQSolver (preconditioner rank 0 and > 0); tol in {1e-3, 1e-5, 1e-8}; budgets chosen so that converged and "
        "non-converged runs both occur; np.random.seed(s) before each call, several seeds per configuration. Per run: converged => true "
        "residual <= K*tol (K from chi-square tail bounds of the Gaussian test sketch, failure probability < 1e-12) and distance to the "
        "oracle pseudoinverse <= K*tol*sqrt(n)/sigma_min; last reported residual consistent with the returned iterate (exactly for RSP "
        "by capturing the test sketch at the _generate_random_sketch boundary; two-sided factor bound otherwise); list lengths; CGNE "
        "accurate within budget with non-increasing residuals. distinct = (input digest, solver configuration, seed); non-trivial = "
        "min(m,n) >= 2")
ASSUMPTIONS = ["K(n, s): P(proxy <= true/K) < 1e-15 per proxy evaluation from chi-square quantiles (scipy.stats.chi2): worst case a rank-one "
               "error matrix; for n = 1 the proxy equals the true residual exactly",
               "the randomized iterates do not depend on the test sketch (it is only used for the stopping test), so a union bound over "
               "<= 1000 proxy evaluations applies",
               "block sizes are kept within 1..min(m,n) (the stated domain)"]
SHARDS = {"quick": 12, "thorough": 16}
TIMEOUT = {"quick": 900, "thorough": 5400}
DECIDING = ["finite_shapes", "flag_sound_residual", "flag_sound_pinv", "reported_residual_consistent", "history_lengths",
            "cgne_accurate", "cgne_monotone", "cgne_residual_truthful", "input_unchanged"]
MUST_REACH = ["converged:rsp_column_qr", "converged:rsp_column_spd", "converged:rsp_row", "converged:hybrid", "converged:cgne",
              "not_converged:any", "rsp:spd_path", "rsp:qr_path", "hybrid:proxy_every_10", "hybrid:converged_inside_cycle"]

C = 1e3
EPS = refq.EPS

_REACH = None


def setup(ctx, R):
    global _REACH
    S = R.solver
    _REACH = reach.Reach(ctx)
    RSP = S.RandomizedSketchProjectPseudoinverse
    _REACH.watch(reach.Locator(RSP.compute_column_variant, "rsp:spd_path", "self.column_solver == 'spd'"))
    _REACH.watch(reach.Locator(RSP.compute_column_variant, "rsp:qr_path", "self.column_solver == 'spd'", which="orelse"))
    _REACH.watch(reach.Locator(RSP.compute_column_variant, "rsp:column_cg_failed_fallback", "not ok"))
    _REACH.watch(reach.Locator(RSP.compute_column_variant, "rsp:column_exception_redraw", "Exception", kind="except"), index=-1)
    _REACH.watch(reach.Locator(RSP.compute_row_variant, "rsp:row_cg_failed_fallback", "not ok"), index=0)
    _REACH.watch(reach.Locator(RSP._solve_spd_quat, "spd:pAp_nonpositive", "pAp <= 0"))
    _REACH.watch(reach.Locator(S.HybridRSPNewtonSchulz.compute, "hybrid:proxy_every_10", "iter_rsp % 10 == 0"))
    _REACH.watch(reach.Locator(S.CGNEQSolver.compute, "cgne:Wn_tiny_exit", "Wn <= 1e-20"))
    _REACH.start()


def teardown(ctx, R):
    if _REACH:
        _REACH.stop()


@functools.lru_cache(maxsize=None)
def K_factor(n: int, s: int) -> float:
    """K with P(proxy <= true/K) < 1e-15 for a Gaussian quaternion test sketch with s columns, error matrix n x n."""
    if n == 1:
        return 1.0 + 1e-9
    from scipy.stats import chi2
    a = chi2.ppf(5e-16, 4 * s) / (4 * s)
    b = chi2.isf(5e-16, 4 * n * s) / (4 * n * s)
    return float(np.sqrt(b / a))


def cases(tier, seed):
    out = []
    maxd = 6 if tier == "quick" else 10
    nconf = 70 if tier == "quick" else 500
    idx = 0
    for solver in ("rsp_column_qr", "rsp_column_spd", "rsp_row", "rsp_compute", "hybrid", "cgne"):
        for k in range(nconf):
            out.append({"kind": "run", "cls": solver, "solver": solver, "idx": idx, "seed": seed, "maxd": maxd,
                        "nseeds": 2 if tier == "quick" else 4})
            idx += 1
    # size ladder: more columns / rows than the default block size and test-sketch size (8), than 16 and than 32
    for dims in ([(12, 9), (24, 12), (20, 17), (33, 10), (18, 18)] if tier == "quick" else
                 [(12, 9), (24, 12), (20, 17), (33, 10), (18, 18), (40, 33), (26, 25), (64, 9), (17, 16), (48, 20)]):
        for solver in ("rsp_column_qr", "rsp_column_spd", "rsp_row", "rsp_compute", "hybrid", "cgne"):
            for k in range(2 if tier == "quick" else 4):
                out.append({"kind": "run", "cls": solver, "solver": solver, "idx": idx, "seed": seed, "maxd": maxd, "nseeds": 1, "dims": list(dims)})
                idx += 1
    for dims in ([(40, 30), (36, 24), (30, 22), (24, 16)] if tier == "quick" else [(20, 14), (24, 16), (30, 20), (40, 30), (36, 24), (30, 22), (48, 40), (26, 13)]):
        for solver in (("hybrid",) if tier == "quick" else ("rsp_column_spd", "hybrid")):      # the SPD sketch solver takes ~20 s per problem of this size
            out.append({"kind": "run", "cls": solver + ":wide_block", "solver": solver, "idx": idx, "seed": seed, "maxd": maxd, "nseeds": 2, "dims": list(dims),
                        "wide_block": True})
            idx += 1
    for dims in ([(46, 40), (48, 48)] if tier == "quick" else [(46, 40), (48, 48), (40, 36), (60, 30), (56, 48)]):
        for k in range(2):
            out.append({"kind": "run", "cls": "cgne:long_recurrence", "solver": "cgne", "idx": idx, "seed": seed, "maxd": maxd, "nseeds": 1, "dims": list(dims),
                        "kap": 1e3, "cgne_long": True})
            idx += 1
    for k in range(4 if tier == "quick" else 16):
        out.append({"kind": "run", "cls": "cgne:badly_scaled_columns", "solver": "cgne", "idx": idx, "seed": seed, "maxd": maxd, "nseeds": 1,
                    "structure": "column_scaled", "cgne_scaled": True})
        idx += 1
    for st_ in ("herm_pd", "nearly_herm_pd", "nearly_herm_pd", "diag", "upper_tri", "unitary_scaled", "real_only", "zero_row_tall", "column_scaled", "row_scaled"):
        for solver in ("rsp_column_qr", "rsp_column_spd", "rsp_row", "rsp_compute", "hybrid", "cgne"):
            if tier == "quick" and st_ in ("column_scaled", "row_scaled") and solver in ("rsp_column_spd", "rsp_row", "rsp_compute"):
                continue                   # cost: 20 s and more per run for the badly scaled 16-column problems
            for k in range(2 if tier == "quick" else 8):
                out.append({"kind": "run", "cls": solver + ":structured", "solver": solver, "idx": idx, "seed": seed, "maxd": maxd, "nseeds": 2, "structure": st_})
                idx += 1
    # deterministic CGNE: every iteration budget 1..B on a few ill-conditioned inputs (the flag must follow the LAST residual)
    for k in range(6 if tier == "quick" else 40):
        out.append({"kind": "run", "cls": "cgne_all_budgets", "solver": "cgne_budgets", "idx": idx, "seed": seed, "maxd": maxd, "nseeds": 1})
        idx += 1
    return out


def _matrix(rng, spec, orientation):
    maxd = spec["maxd"]
    a = int(rng.integers(1, maxd + 1))
    b = int(rng.integers(a, maxd + 1))
    m, n = (b, a) if orientation == "tall" else (a, b)
    if spec["idx"] % 9 == 0:
        m = n = a
    if "dims" in spec:
        b, a = max(spec["dims"]), min(spec["dims"])
        m, n = (b, a) if orientation == "tall" else (a, b)
    N = min(m, n)
    st_ = spec.get("structure")
    if st_:
        # SQUARE inputs with exact or near structure (Hermitian positive definite, Hermitian up to a relative 1e-9 .. 4e-6, diagonal, triangular,
        # scaled unitary, real): a solver option may treat such input specially; the pseudoinverse is the oracle's
        n_ = max(2, a)
        e_ = np.linspace(4.0, 1.0, n_) if n_ > 1 else np.array([2.0])
        if st_ in ("herm_pd", "nearly_herm_pd"):
            A = refq.hermitian_with_eigs(rng, e_)[0]
            if st_ == "nearly_herm_pd":
                d_ = float(rng.choice([4e-6, 1e-7, 1e-9, 1e-5]))
                A = refq.qa(refq.fa(A) * (1.0 + d_ * rng.uniform(-1.0, 1.0, size=(n_, n_, 1))))
        elif st_ == "diag":
            A = refq.diagq(e_, n_, n_) * refq.randq(rng, 1, 1)[0, 0]
        elif st_ == "upper_tri":
            A = gen.structured(rng, "upper_tri", n_, n_) + refq.diagq(np.full(n_, 3.0), n_, n_)
        elif st_ == "unitary_scaled":
            A = refq.rand_unitary(rng, n_) * 2.5
        elif st_ == "real_only":
            A = gen.structured(rng, "real_only", n_, n_) + refq.diagq(np.full(n_, 3.0), n_, n_)
        elif st_ in ("column_scaled", "row_scaled"):
            # badly scaled columns (rows): norms 1, 1/20, 1/200 in turn on a well-conditioned tall matrix with 12 .. 16 columns (cond <= 1e3, in the
            # domain): an equilibrated system has other residuals than the one the caller asked about
            n_ = int(rng.integers(12, 17)); m_ = n_ + int(rng.integers(2, 20))
            if spec.get("cgne_scaled"):
                n_, m_ = 16, 48
            A, _, _ = refq.with_singular_values(rng, m_, n_, np.linspace(2.0, 1.0, n_))
            if st_ == "column_scaled":
                A = A * np.resize(np.array([1.0, 1.0 / 200.0, 1.0 / 20.0]), n_)[None, :]
            else:
                A = A * np.resize(np.array([1.0, 1.0 / 100.0, 1.0 / 10.0]), m_)[:, None]
            if orientation != "tall":
                A = refq.herm(A)
        elif st_ == "zero_row_tall":
            # tall, full column rank, one exactly zero row, 8..12 columns (blocks of that width are genuine blocks): the matching column of
            # the pseudoinverse is exactly zero and nothing the solver measures depends on it
            n_ = int(rng.integers(8, 13)); m_ = n_ + int(rng.integers(1, 5))
            A, _, _ = refq.with_singular_values(rng, m_, n_, np.linspace(3.0, 1.0, n_))
            A[int(rng.integers(0, m_)), :] = np.quaternion(0, 0, 0, 0)
            if orientation != "tall":
                A = refq.herm(A)
        else:
            raise ValueError(st_)
        s = embed.svals(A)
        return A, embed.pinv(A), s, float(s[0] / s[-1])
    kap = float(rng.choice([1.0, 10.0, 1e2, 1e3], p=[0.3, 0.4, 0.2, 0.1]))
    if spec.get("kap"):
        kap = float(spec["kap"])
    if spec.get("wide_block"):
        kap = float(rng.choice([3.0, 5.0, 10.0]))          # mild conditioning: the inner solves then pass slowly through the 1e-3 .. 1e-8 range
    scale = float(rng.choice([1e-2, 1.0, 1.0, 1e2]))
    s = (np.geomspace(kap, 1.0, N) if N > 1 else np.array([1.0])) * scale
    A, U, V = refq.with_singular_values(rng, m, n, s)
    Ap = refq.matmul(V[:, :N] * (1.0 / s)[None, :], refq.herm(U[:, :N]))
    return A, Ap, s, kap


def _cgne_budgets(spec, ctx, R):
    S = R.solver
    rng = gen.rng_for(spec["seed"], "c13b", spec["idx"])
    n = int(rng.integers(3, spec["maxd"] + 1))
    m = n + int(rng.integers(0, 3))
    kap = float(rng.choice([30.0, 1e2, 1e3]))
    s = np.geomspace(kap, 1.0, n)
    A, U, V = refq.with_singular_values(rng, m, n, s)
    Ap = refq.matmul(V[:, :n] * (1.0 / s)[None, :], refq.herm(U[:, :n]))
    tol = float(rng.choice([1e-2, 1e-3, 1e-5]))
    prev = None
    for budget in range(1, 4 * n + 8):
        X, info = S.CGNEQSolver(tol=tol, max_iter=budget).compute(A)
        rn = [float(v) for v in info["residual_norms"]]
        true = refq.fro(refq.matmul(X, A) - refq.eye(n)) / np.sqrt(n)
        conv = bool(info["converged"])
        det = {"shape": [m, n], "cond": kap, "tol": tol, "budget": budget, "true_residual": true, "reported_last": rn[-1] if rn else None,
               "converged": conv}
        ctx.distinct(A, "cgne_budgets", tol, budget)
        ctx.hit(("converged:cgne") if conv else "not_converged:any")
        ctx.check("flag_consistent_with_history", conv == bool(rn and rn[-1] <= tol), site="cgne:every_budget", detail=det)
        ctx.check("cgne_residual_truthful", abs(rn[-1] - true) if rn else 0.0, 1e-8 * true + C * EPS * kap * kap * (budget + 1),
                  site="cgne:every_budget", detail=det)
        if conv:
            ctx.check("flag_sound_residual", true, tol * (1 + 1e-6) + C * EPS * kap * kap * (budget + 1), site="cgne:every_budget", detail=det)
            ctx.check("flag_sound_pinv", refq.fro(X - Ap), tol * (1 + 1e-6) * np.sqrt(n) / s[-1] + C * EPS * n * kap * refq.fro(Ap),
                      site="cgne:every_budget", detail=det)
        if prev is not None and len(rn) > len(prev):
            ctx.check("history_lengths", rn[:len(prev)] == prev, site="cgne:prefix_of_longer_budget", detail=det)
        prev = rn
        if conv and len(rn) < budget:
            break


def run_case(spec, ctx, R):
    if spec["solver"] == "cgne_budgets":
        return _cgne_budgets(spec, ctx, R)
    S = R.solver
    rng = gen.rng_for(spec["seed"], "c13", spec["idx"])
    solver = spec["solver"]
    orientation = "wide" if solver == "rsp_row" else ("tall" if solver != "rsp_compute" else ("wide" if spec["idx"] % 2 else "tall"))
    force_hybrid6 = solver == "hybrid" and spec["idx"] % 4 == 0
    if force_hybrid6:
        # the block size equals the width of the solver's internal test sketch (min(6, n)) on a matrix with more columns
        spec = dict(spec, maxd=max(spec["maxd"], 9))
    A, Ap, s, kap = _matrix(rng, spec, orientation)
    if force_hybrid6:
        n7 = int(rng.integers(7, 10)); m7 = n7 + int(rng.integers(0, 4))
        s = np.geomspace(float(rng.choice([3.0, 30.0])), 1.0, n7)
        A, U7, V7 = refq.with_singular_values(rng, m7, n7, s)
        Ap = refq.matmul(V7[:, :n7] * (1.0 / s)[None, :], refq.herm(U7[:, :n7]))
        kap = float(s[0] / s[-1])
    A = gen.vary(A, spec["idx"])
    m, n = A.shape
    N = min(m, n)
    tol = float(rng.choice([1e-3, 1e-5, 1e-8]))
    cfg = {}
    if solver.startswith("rsp"):
        cfg = {"block_size": int(rng.integers(1, N + 1)), "max_iter": int(rng.choice([3, 5, 8, 12, 20, 30, 45, 60, 100, 400])), "tol": tol,
               "test_sketch_size": int(rng.choice([2, 4, 8])),
               "seed_via": str(rng.choice(["global", "constructor"])),
               "column_solver": "spd" if solver == "rsp_column_spd" else ("qr" if solver != "rsp_compute" else str(rng.choice(["qr", "spd"])))}
    elif solver == "hybrid":
        cfg = {"r": (6 if force_hybrid6 else int(rng.integers(1, N + 1))), "p": int(rng.choice([2, 3, 4, 8])), "T": int(rng.choice([1, 5, 1, 5, 2, 3, 10, 10, 12, 20, 30])), "tol": tol,
               "max_iter": int(rng.choice([1, 2, 3, 5, 8, 12, 20, 40, 200])), "column_solver": str(rng.choice(["qr", "spd"]))}
        if spec["idx"] % 3 == 1 and not force_hybrid6:
            # convergence detected INSIDE a cycle (the proxy is looked at after every 10th sketch step, before the hyperpower step): needs
            # cycles of >= 10 steps and blocks wide enough to get there -- the history must still end at the returned (post-hyperpower) iterate
            cfg.update(r=int(rng.integers(max(1, N - 1), N + 1)), T=int(rng.choice([10, 20, 15])), max_iter=int(rng.choice([40, 200])),
                       tol=float(rng.choice([1e-3, 1e-5, 1e-6])))
            tol = cfg["tol"]
    else:
        cfg = {"tol": tol, "max_iter": int(rng.choice([1, 2, 3, 4, 5, 6, 8, 10, 12, 16, 24, 500, 500, 500, 500])), "preconditioner_rank": int(rng.choice([0, 0, max(1, N // 2)]))}
    if spec.get("cgne_long"):
        # the deterministic solver at the edge of its domain: 36 .. 48 columns, cond 1e3 (log-spaced), tolerances 1e-6 / 1e-8, default budget 500
        # - it needs 150 .. 300 iterations, i.e. long recurrences (any periodic restart or loss of conjugacy shows as a missed budget)
        tol = [1e-6, 1e-8][spec["idx"] % 2]
        cfg = {"tol": tol, "max_iter": 500, "preconditioner_rank": 0}
        ctx.hit("config:cgne_long_recurrence")
    if spec.get("wide_block"):
        # strictly tall input, block of 12 .. 16 columns, the SPD micro-solver, tight tolerance, run to convergence: the inner conjugate-gradient
        # solves then do real work (small blocks fall back to the direct inverse), and what they leave in the left null space of A is visible
        # only in the distance to the pseudoinverse
        tol = 1e-8
        if solver.startswith("rsp"):
            cfg.update(block_size=min(N, 16), max_iter=400, tol=tol, column_solver="spd")
        elif solver == "hybrid":
            cfg.update(r=min(N, 16), max_iter=200, tol=tol, column_solver="spd", T=5, p=4)
        ctx.hit("config:wide_block_spd")
    if spec.get("structure"):
        # structured inputs are run to convergence at a tight tolerance (a run that does not converge says nothing about what is returned)
        tol = [1e-8, 1e-7, 1e-6][spec["idx"] % 3]         # the property covers tolerances 1e-3 .. 1e-8
        cfg["tol"] = tol
        if solver.startswith("rsp"):
            cfg.update(max_iter=400, block_size=int(rng.integers(max(1, N // 2), N + 1)))
        elif solver == "hybrid":
            cfg.update(max_iter=200, r=int(rng.integers(max(1, N // 2), N + 1)))
        else:
            cfg.update(max_iter=500)
        ctx.hit("inputs:structured_square:" + spec["structure"])
    if spec.get("cgne_scaled"):
        # the deterministic solver on badly scaled columns, stopped by its tolerance well before finite termination (16 columns, tolerances
        # 1e-3 .. 1e-6): the residual it reports and tests is the one of the system the caller passed
        tol = [1e-6, 1e-5, 1e-4, 1e-3][spec["idx"] % 4]
        cfg = {"tol": tol, "max_iter": 500, "preconditioner_rank": 0}
        ctx.hit("config:cgne_badly_scaled_columns")
    if solver.startswith("rsp") and spec["idx"] % 3 == 0:
        cfg["test_sketch_size"] = cfg["block_size"]          # the stopping sketch has the shape of an iteration sketch
    seed_via = cfg.pop("seed_via", "global")
    if spec["idx"] % 5 == 2:
        cfg["verbose"] = True              # call form: prints only; the run is judged by the same clauses
        ctx.hit("callform:verbose_true")
    A0 = refq.fa(A).copy()
    nrmA = refq.fro(A)
    smin = float(s[-1])
    if spec["idx"] % 23 == 0:
        ctx.sample({"solver": solver, "shape": [m, n], "cond": kap, "svals": s, "config": cfg})
    for k in range(spec["nseeds"]):
        sd = (spec["seed"] * 7919 + spec["idx"] * 31 + k) % (2 ** 31)
        site = solver
        ctx.distinct(A, solver, cfg, sd, nontrivial=N >= 2)
        captured = []
        np.random.seed(sd)
        try:
            if solver.startswith("rsp"):
                obj = S.RandomizedSketchProjectPseudoinverse(**cfg, **({"seed": sd} if seed_via == "constructor" else {}))
                ctx.hit("rsp:seed_via_" + seed_via)
                orig = obj._generate_random_sketch

                def rec(*a, _orig=orig, **kw):
                    out = _orig(*a, **kw)
                    if len(captured) < 1:
                        captured.append(out.copy())
                    return out
                obj._generate_random_sketch = rec          # boundary capture of the test sketch (first draw)
                f = {"rsp_column_qr": obj.compute_column_variant, "rsp_column_spd": obj.compute_column_variant,
                     "rsp_row": obj.compute_row_variant, "rsp_compute": obj.compute}[solver]
                with repo.quiet():
                    X, info = f(A)
                row = (solver == "rsp_row") or (solver == "rsp_compute" and m < n)
                ssk = cfg["test_sketch_size"]
            elif solver == "hybrid":
                hyb = S.HybridRSPNewtonSchulz(**cfg, **({"seed": sd} if (spec["idx"] % 2 or force_hybrid6) else {}))
                # boundary capture of the test sketch: the solver draws it from the global generator before anything else (four (n, min(6,n))
                # component draws); recording what numpy hands out lets the last reported proxy be recomputed EXACTLY for the returned iterate
                draws = []
                orig_randn = np.random.randn

                def rec_randn(*a, **kw):
                    out = orig_randn(*a, **kw)
                    if len(draws) < 4:
                        draws.append(np.array(out, copy=True))
                    return out
                np.random.randn = rec_randn
                try:
                    with repo.quiet():
                        X, info = hyb.compute(A)
                finally:
                    np.random.randn = orig_randn
                row, ssk = False, min(6, n)
                if len(draws) == 4 and all(d.shape == (n, ssk) for d in draws):
                    captured.append(refq.qa(np.stack(draws, axis=-1)))
                    ctx.hit("hybrid:test_sketch_captured")
            else:
                with repo.quiet():
                    X, info = S.CGNEQSolver(**cfg).compute(A)
                row, ssk = False, None
        except Exception as e:
            ctx.check("unexpected_exception", False, site=site, detail={"exception": repr(e), "shape": [m, n], "config": cfg, "np_seed": sd})
            continue
        ctx.check("input_unchanged", np.array_equal(refq.fa(A), A0), site=site)
        ok = getattr(X, "shape", None) == (n, m) and refq.is_finite(X) and isinstance(info, dict) and "converged" in info
        ctx.check("finite_shapes", ok, site=site, detail={"shape": [m, n], "X": getattr(X, "shape", None), "config": cfg, "np_seed": sd})
        if not ok:
            continue
        dimE = m if row else n
        E = (refq.matmul(A, X) if row else refq.matmul(X, A)) - refq.eye(dimE)
        true = refq.fro(E) / np.sqrt(dimE)
        rn = [float(v) for v in info.get("residual_norms", [])]
        conv = bool(info["converged"])
        det = {"shape": [m, n], "cond": kap, "config": cfg, "np_seed": sd, "seed_via": seed_via, "true_residual": true,
               "reported_last": rn[-1] if rn else None, "converged": conv, "iterations": info.get("iterations", info.get("iterations_rsp"))}
        floor = C * EPS * max(m, n) * kap
        key = "cgne" if solver == "cgne" else ("hybrid" if solver == "hybrid" else ("rsp_row" if row else
              ("rsp_column_spd" if cfg["column_solver"] == "spd" else "rsp_column_qr")))
        ctx.hit(("converged:" + key) if conv else "not_converged:any")
        if solver == "cgne":
            it = int(info.get("iterations", -1))
            ctx.check("history_lengths", it == len(rn) and it <= cfg["max_iter"] and len(info.get("iteration_times", [])) == it, site=site, detail=det)
            if rn:
                drift = 1e-8 * true + C * EPS * kap * kap * (it + 1)
                ctx.check("cgne_residual_truthful", abs(rn[-1] - true), drift, site=site, detail=det)
                if cfg["preconditioner_rank"] == 0:
                    # the deterministic solver (no random Nystrom preconditioner) minimises the residual over its Krylov space
                    inc = max([rn[i + 1] - rn[i] * (1 + 1e-10) for i in range(len(rn) - 1)] + [0.0])
                    ctx.check("cgne_monotone", inc, C * EPS * kap * kap * (it + 1), site=site, detail={**det, "series_tail": rn[-5:]})
            ctx.check("flag_consistent_with_history", conv == bool(rn and rn[-1] <= tol), site=site, detail=det)
            if conv:
                ctx.check("flag_sound_residual", true, tol * (1 + 1e-6) + C * EPS * kap * kap * (it + 1), site=site, detail=det)
                ctx.check("flag_sound_pinv", refq.fro(X - Ap), (tol * (1 + 1e-6) * np.sqrt(n) / smin) + floor * refq.fro(Ap), site=site, detail=det)
            if spec.get("cgne_long"):
                # the budget clause itself: the default budget suffices on these inputs (150 .. 300 iterations on the unchanged tree)
                ctx.check("cgne_accurate", bool(conv and true <= tol * (1 + 1e-6) + C * EPS * kap * (it + 1)), site=site + ":converges_within_default_budget",
                          detail={**det, "iterations": it})
            if cfg["max_iter"] >= 500 and cfg["preconditioner_rank"] == 0:
                # deterministic solver: accurate within its budget on every input with cond <= 1e3
                ctx.check("cgne_accurate", true, tol * (1 + 1e-6) + C * EPS * kap * kap * (it + 1), site=site, detail=det)
            continue
        # randomized solvers ---------------------------------------------------------------------------
        it = int(info.get("iterations", len(rn))) if solver != "hybrid" else len(rn)
        lens_ok = (it == len(rn)) and (solver == "hybrid" or (it <= cfg["max_iter"] and len(info.get("iteration_times", [])) == it))
        if solver == "hybrid" and len(rn) >= 2 and rn[-2] <= cfg["tol"] and int(info.get("iterations_rsp", 1)) % 10 == 0:
            ctx.hit("hybrid:converged_inside_cycle")
        if solver == "hybrid":
            lens_ok = lens_ok and int(info.get("iterations_rsp", -1)) <= cfg["max_iter"] + cfg["T"]
        ctx.check("history_lengths", lens_ok, site=site, detail=det)
        K = K_factor(dimE, ssk)
        if rn:
            # two-sided consistency of the last reported proxy with the returned iterate
            lo = true / K - floor
            hi = np.sqrt(dimE) * true * (1 + 1e-9) + floor
            ctx.check("reported_residual_consistent", bool(lo <= rn[-1] <= hi), site=site + ":two_sided",
                      detail={**det, "K": K, "lower": lo, "upper": hi})
            if captured:
                Pi = captured[0]
                if Pi.shape == (dimE, ssk):
                    EP = refq.matmul(E, Pi)
                    exact = refq.fro(EP) / refq.fro(Pi)
                    ctx.check("reported_residual_consistent", abs(rn[-1] - exact), 1e-9 * exact + floor, site=site + ":exact_via_captured_sketch",
                              detail={**det, "recomputed": exact})
                else:
                    ctx.note(f"captured sketch has shape {Pi.shape}, expected {(dimE, ssk)}")
        if conv:
            ctx.check("flag_sound_residual", true, K * tol + floor, site=site, detail={**det, "K": K})
            ctx.check("flag_sound_pinv", refq.fro(X - Ap), K * tol * np.sqrt(dimE) / smin + floor * refq.fro(Ap), site=site, detail={**det, "K": K})
            ctx.check("flag_consistent_with_history", bool(rn and rn[-1] <= tol), site=site, detail=det)
        else:
            ctx.check("flag_consistent_with_history", bool((not rn) or rn[-1] > tol), site=site, detail=det)
