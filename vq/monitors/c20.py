"""C20 Domain guards (DESIGN.md section 7, C20 and Appendix C).

The table (entry point x out-of-domain class) is enumerated completely in both
tiers.  A cell is refuted when the call returns instead of raising, or raises
only after modifying an argument.  The converse table (in-domain boundary
arguments) is refuted by any exception.
"""
from __future__ import annotations

import numpy as np
import quaternion

from .. import gen
from ..core import digest
from ..oracle import refq

ID = "C20"
LEVEL = "exploration"
EXHAUSTIVE = True
EXHAUSTIVE_NOTE = "the whole guard table (entry point x applicable out-of-domain class) and the converse table are enumerated in both tiers"
RULE = ("exhaustive enumeration of the guard table: every public entry point with a partial domain x every applicable class of "
        "out-of-domain argument (non-square, non-Hermitian by margins 1e-2 and 1, wrong orientation, real/complex/int dtype, "
        "sparse-where-dense, mismatched right-hand side, unknown option, wrong tensor order, inconsistent fold shape, wrong channel "
        "count, unsupported boundary, operator of wrong size, size coupling); each cell must raise and leave argument bytes "
        "unchanged; converse: every row on 1x1, 1xn, nx1, rank-0, integer-valued input and five memory layouts must return. "
        "distinct = distinct (entry point, class) cells; all are non-trivial")
ASSUMPTIONS = ["any Exception subclass counts as a rejection (AssertionError for qslst asserts: run without -O)",
               "real arrays are promoted to quaternions by numpy-quaternion, so only routines with a dtype guard are in the dtype column"]
SHARDS = {"quick": 4, "thorough": 4}
DECIDING = ["rejects", "no_mutation_before_raise", "accepts_in_domain"]


def _q(rng, m, n):
    return refq.randq(rng, m, n)


def _herm(rng, n):
    return gen.structured(rng, "herm_indef", n, n)


def _non_herm(rng, n, margin):
    H = _herm(rng, n)
    S = refq.randq(rng, n, n)
    S = S - refq.herm(S)                       # skew-Hermitian
    S = S * (margin * refq.fro(H) / max(refq.fro(S), 1e-300))
    return H + S


def _non_herm_structured(rng, n):
    """Matrices that violate A = A^H only in one specific place (margin O(1) relative to the entries)."""
    out = {}
    H = _herm(rng, n)
    c = refq.fa(H)
    d = c.copy(); d[n // 2, n // 2, 1:] = [0.6, -0.8, 0.3]
    out["diag_one_entry_nonreal"] = refq.qa(d)
    d = c.copy(); d[np.arange(n), np.arange(n), 2] = 0.7
    out["diag_all_nonreal"] = refq.qa(d)
    if n >= 2:
        d = c.copy(); d[n - 1, 0] = d[n - 1, 0] + np.array([0.9, 0.4, -0.5, 0.3])
        out["corner_entry_only"] = refq.qa(d)
        d = c.copy(); d[0, 1] = d[0, 1] + np.array([0.0, 0.8, 0.0, 0.0])
        out["single_upper_entry"] = refq.qa(d)
        d = c.copy(); d[1, 0, 0] = d[1, 0, 0] + 0.9
        out["real_part_asymmetric"] = refq.qa(d)
        d = c.copy(); d[1, 0] = d[0, 1]                 # symmetric instead of conjugate-symmetric in one pair
        if not np.any(d[0, 1, 1:]):
            d[0, 1, 1] = d[1, 0, 1] = 0.5
        out["one_pair_not_conjugated"] = refq.qa(d)
        # the violation confined to ONE component (w, i, j or k) of one entry: a check that compares the components separately and
        # forgets one of them lets it pass
        for ax, nm in enumerate("wijk"):
            if ax > 0:
                d = c.copy(); d[n // 2, n // 2, ax] = 0.5
                out[f"diag_nonreal_only_{nm}"] = refq.qa(d)
            d = c.copy(); d[0, n - 1, ax] += 0.7
            out[f"one_entry_{nm}_component_changed"] = refq.qa(d)
            d = c.copy(); d[0, n - 1, ax] = 0.4; d[n - 1, 0, ax] = 0.4 if ax > 0 else -0.4      # symmetric where skew is required (and vice versa)
            out[f"pair_wrong_symmetry_in_{nm}"] = refq.qa(d)
        # widely graded entries: one huge (real, diagonal) entry next to an O(1) violation in the small entries - a test that measures
        # the asymmetry against the norm of the whole matrix lets it pass
        for big in (4e6, 1e8, 1e12):
            d = c.copy()
            d[0, 0] = [big, 0.0, 0.0, 0.0]
            i, j = (n - 2, n - 1)
            d[i, j] = d[i, j] + np.array([3.0, 4.0, -2.0, 1.0])
            out[f"graded_diag_{big:g}_small_entries_asymmetric"] = refq.qa(d)
        G = refq.randq(rng, n, n)
        out["transpose_symmetric"] = refq.qa(0.5 * (refq.fa(G) + np.swapaxes(refq.fa(G), 0, 1)))   # A = A^T, not A^H
    return out


def build_table(R, rng):
    """List of (entry, cls, thunk, args) ; thunk() performs the call on args (list of arrays to digest)."""
    U, S, D, T, Q = R.utils, R.solver, R.decomp, R.tensor, R.qslst
    cells = []

    def add(entry, cls, fn, *args):
        cells.append((entry, cls, fn, args))

    def add_ns(entry, call):
        """Non-square arguments of every kind: wide, tall, single row, single column (the last two broadcast against their own
        conjugate transpose, so a guard-free comparison A == A^H does not fail by itself)."""
        for (mm, nn) in ((2, 3), (3, 2), (1, 3), (3, 1), (1, 2), (2, 1), (4, 2), (33, 34), (66, 65)):
            Ans = _q(rng, mm, nn)
            cells.append((entry, f"NS:{mm}x{nn}", (lambda Ans=Ans: call(Ans)), (Ans,)))

    real = rng.standard_normal((3, 3))
    cplx = rng.standard_normal((3, 3)) + 1j * rng.standard_normal((3, 3))
    integ = rng.integers(-3, 4, size=(3, 3))
    A33 = _q(rng, 3, 3)
    A23 = _q(rng, 2, 3)
    A32 = _q(rng, 3, 2)
    sp33 = R.sparse_from_dense(A33)
    sp23 = R.sparse_from_dense(A23)

    # --- norms -----------------------------------------------------------------------
    for name in ("induced_matrix_norm_1", "induced_matrix_norm_inf", "spectral_norm_2"):
        f = getattr(U, name)
        add(name, "DT:real", lambda f=f, x=real: f(x), real)
        add(name, "DT:complex", lambda f=f, x=cplx: f(x), cplx)
        add(name, "DT:int", lambda f=f, x=integ: f(x), integ)
        add(name, "SP", lambda f=f: f(sp33))
    for o in (1, 2, np.inf):
        add(f"matrix_norm(ord={o})", "DT:real", lambda o=o: U.matrix_norm(real, o), real)
        add(f"matrix_norm(ord={o})", "SP", lambda o=o: U.matrix_norm(sp33, o))
    for o in ("nuc", 3, -1, 0, "1", "2", "FRO"):
        add("matrix_norm", f"OPT:ord={o!r}", lambda o=o: U.matrix_norm(A33, o), A33)
        for lab, Atr in (("zero", refq.zeros(2, 2)), ("1x1", refq.qa(np.array([[[1.5, 0.5, 0.0, -1.0]]]))), ("identity", refq.eye(2))):
            add("matrix_norm", f"OPT:ord={o!r}:input_{lab}", lambda o=o, Atr=Atr: U.matrix_norm(Atr, o), Atr)
    # --- embeddings --------------------------------------------------------------------
    add("real_expand", "DT:real", lambda: U.real_expand(real), real)
    add("real_expand", "DT:complex", lambda: U.real_expand(cplx), cplx)
    add("real_expand", "DT:int", lambda: U.real_expand(integ), integ)
    add("real_expand", "SP", lambda: U.real_expand(sp33))
    E = rng.standard_normal((8, 12))
    add("real_contract", "SZ:swapped", lambda: U.real_contract(E, 3, 2), E)
    add("real_contract", "SZ:too_small", lambda: U.real_contract(E, 2, 2), E)
    # --- hermitian test, determinants ---------------------------------------------------
    add_ns("ishermitian", lambda Ans: U.ishermitian(Ans))
    add("ishermitian", "SP", lambda: U.ishermitian(sp33))
    add_ns("det(Dieudonne)", lambda Ans: U.det(Ans, "Dieudonne"))
    add_ns("det(Moore)", lambda Ans: U.det(Ans, "Moore"))
    add("det", "OPT:type='LU'", lambda: U.det(A33, "LU"), A33)
    for lab, Atr in (("zero", refq.zeros(2, 2)), ("1x1", refq.qa(np.array([[[1.5, 0.0, 0.0, 0.0]]]))), ("identity", refq.eye(3))):
        add("det", f"OPT:type='LU':input_{lab}", lambda Atr=Atr: U.det(Atr, "LU"), Atr)
        add("det", f"OPT:type='':input_{lab}", lambda Atr=Atr: U.det(Atr, ""), Atr)
    add("det", "OPT:type='moore'", lambda: U.det(_herm(rng, 3), "moore"))
    add("det(Study)", "NotImplemented", lambda: U.det(A33, "Study"), A33)
    for mg in (1e-2, 1.0):
        NH = _non_herm(rng, 3, mg)
        add("det(Moore)", f"NH:{mg}", lambda NH=NH: U.det(NH, "Moore"), NH)
    # the Moore determinant documents its Hermitian test at machine precision (ishermitian, default tolerance eps relative to max|A|): a skew
    # part of relative size 1e-4 .. 1e-10 is ten thousand times and more above it - still outside the domain (other Hermitian-only entry points
    # document looser tests and are only given the margins 1e-2 and 1)
    for mg in (1e-4, 1e-6, 1e-8, 1e-10):
        for nn in (2, 4, 6):
            NH = _non_herm(rng, nn, mg)
            add("det(Moore)", f"NH:small_margin:{mg:g}:n={nn}", lambda NH=NH: U.det(NH, "Moore"), NH)
    for nn in (1, 2, 4):
        for lab, NH in _non_herm_structured(rng, nn).items():
            add("det(Moore)", f"NH:{lab}:n={nn}", lambda NH=NH: U.det(NH, "Moore"), NH)
    add("det(Dieudonne)", "DT:real", lambda: U.det(real, "Dieudonne"), real)
    add("det(Dieudonne)", "SP", lambda: U.det(sp33, "Dieudonne"))
    # --- rank / null spaces -------------------------------------------------------------
    add("rank", "DT:real", lambda: U.rank(real), real)
    add("rank", "SP", lambda: U.rank(sp33))
    for name in ("quat_null_space", "quat_null_right", "quat_null_left", "quat_kernel"):
        f = getattr(U, name)
        add(name, "DT:real", lambda f=f: f(real), real)
        add(name, "SP", lambda f=f: f(sp23))
    for name in ("quat_null_space", "quat_kernel"):
        f = getattr(U, name)
        for bad in ("both", "Right", "", None, 0):
            add(name, f"OPT:side={bad!r}", lambda f=f, bad=bad: f(A23, side=bad), A23)
            for lab, Atr in (("zero", refq.zeros(2, 3)), ("1x1", refq.qa(np.array([[[1.5, 0.5, 0.0, -1.0]]]))), ("identity", refq.eye(2))):
                add(name, f"OPT:side={bad!r}:input_{lab}", lambda f=f, bad=bad, Atr=Atr: f(Atr, side=bad), Atr)
    # --- power iteration / adjoint --------------------------------------------------------
    add_ns("power_iteration", lambda Ans: U.power_iteration(Ans))
    add("power_iteration", "NS:tall", lambda: U.power_iteration(A32, return_eigenvalue=True), A32)
    add_ns("power_iteration_nonhermitian", lambda Ans: U.power_iteration_nonhermitian(Ans))
    add_ns("quaternion_to_complex_adjoint", lambda Ans: U.quaternion_to_complex_adjoint(Ans))
    add("quaternion_to_complex_adjoint", "DT:real", lambda: U.quaternion_to_complex_adjoint(real), real)
    add("quaternion_to_complex_adjoint", "DT:complex", lambda: U.quaternion_to_complex_adjoint(cplx), cplx)
    add("quaternion_to_complex_adjoint", "OPT:axis='y'", lambda: U.quaternion_to_complex_adjoint(A33, axis="y"), A33)
    add("quaternion_to_complex_adjoint", "OPT:axis='X'", lambda: U.quaternion_to_complex_adjoint(A33, axis="X"), A33)
    T3 = quaternion.as_quat_array(rng.standard_normal((2, 2, 2, 4)))
    add("quaternion_to_complex_adjoint", "TN:order3", lambda: U.quaternion_to_complex_adjoint(T3), T3)
    # --- component triangular solve ---------------------------------------------------------
    Rr = [np.triu(rng.standard_normal((3, 3))) + 3 * np.eye(3) for _ in range(4)]
    Rw = [rng.standard_normal((2, 3)) for _ in range(4)]
    b3 = [rng.standard_normal((3, 1)) for _ in range(4)]
    b2 = [rng.standard_normal((2, 1)) for _ in range(4)]
    add("UtriangleQsparse", "SZ:nonsquare_R", lambda: U.UtriangleQsparse(*Rw, *b2), *Rw, *b2)
    add("UtriangleQsparse", "SZ:rhs_rows", lambda: U.UtriangleQsparse(*Rr, *b2), *Rr, *b2)
    # --- Q-GMRES --------------------------------------------------------------------------------
    bq2, bq3, bq4 = _q(rng, 2, 1), _q(rng, 3, 1), _q(rng, 4, 1)
    for prec in (None, "left_lu"):
        tag = f"[{prec or 'none'}]"
        add("QGMRESSolver.solve" + tag, "NS:wide", lambda prec=prec: S.QGMRESSolver(preconditioner=prec).solve(A23, bq2), A23, bq2)
        add("QGMRESSolver.solve" + tag, "NS:tall", lambda prec=prec: S.QGMRESSolver(preconditioner=prec).solve(A32, bq3), A32, bq3)
        add("QGMRESSolver.solve" + tag, "NS:sparse", lambda prec=prec: S.QGMRESSolver(preconditioner=prec).solve(sp23, bq2), bq2)
        add("QGMRESSolver.solve" + tag, "RHS:shorter", lambda prec=prec: S.QGMRESSolver(preconditioner=prec).solve(A33, bq2), A33, bq2)
        add("QGMRESSolver.solve" + tag, "RHS:longer", lambda prec=prec: S.QGMRESSolver(preconditioner=prec).solve(A33, bq4), A33, bq4)
        brow = _q(rng, 1, 3)
        add("QGMRESSolver.solve" + tag, "RHS:row_vector", lambda prec=prec, brow=brow: S.QGMRESSolver(preconditioner=prec).solve(A33, brow), A33, brow)
    add("QGMRESSolver", "OPT:preconditioner='ilu'", lambda: S.QGMRESSolver(preconditioner="ilu").solve(A33, bq3), A33, bq3)
    zb3 = refq.zeros(3, 1)
    add("QGMRESSolver", "OPT:preconditioner='ilu':rhs_zero", lambda: S.QGMRESSolver(preconditioner="ilu").solve(A33, zb3), A33, zb3)
    add("QGMRESSolver", "OPT:preconditioner='ilu':identity_system", lambda: S.QGMRESSolver(preconditioner="ilu").solve(refq.eye(3), bq3), bq3)
    add("QGMRESSolver", "OPT:preconditioner='ilu':max_iter=0", lambda: S.QGMRESSolver(preconditioner="ilu", max_iter=0).solve(A33, bq3), A33, bq3)
    add("QGMRESSolver", "OPT:preconditioner='right_lu'", lambda: S.QGMRESSolver(preconditioner="right_lu").solve(A33, bq3), A33, bq3)
    # --- pseudoinverse solvers: orientation ------------------------------------------------------
    add("RSP.compute_column_variant", "OR:wide", lambda: S.RandomizedSketchProjectPseudoinverse(block_size=2, max_iter=5).compute_column_variant(A23), A23)
    add("RSP.compute_row_variant", "OR:tall", lambda: S.RandomizedSketchProjectPseudoinverse(block_size=2, max_iter=5).compute_row_variant(A32), A32)
    add("HybridRSPNewtonSchulz.compute", "OR:wide", lambda: S.HybridRSPNewtonSchulz(r=2, max_iter=5).compute(A23), A23)
    add("CGNEQSolver.compute", "OR:wide", lambda: S.CGNEQSolver(max_iter=5).compute(A23), A23)
    add("DeepLinearNewtonSchulz.compute", "SZ:first_layer", lambda: S.DeepLinearNewtonSchulz(max_iter=1).compute(A33, [2, 3]), A33)
    # --- LU and helpers -----------------------------------------------------------------------------
    for name in ("quaternion_lu", "quaternion_modulus", "quaternion_triu", "quaternion_tril"):
        f = getattr(D, name)
        add(name, "DT:real", lambda f=f: f(real), real)
        add(name, "DT:complex", lambda f=f: f(cplx), cplx)
        add(name, "DT:int", lambda f=f: f(integ), integ)
        add(name, "SP", lambda f=f: f(sp33))
    v1 = _q(rng, 3, 1)[:, 0].copy()
    add("quaternion_lu", "TN:order1", lambda: D.quaternion_lu(v1), v1)
    # --- Hermitian eigen / tridiagonal -------------------------------------------------------------------
    for name in ("quaternion_eigendecomposition", "quaternion_eigenvalues", "quaternion_eigenvectors"):
        f = getattr(D, name)
        add_ns(name, lambda Ans, f=f: f(Ans))
        for mg in (1e-2, 1.0):
            NH = _non_herm(rng, 3, mg)
            add(name, f"NH:{mg}", lambda f=f, NH=NH: f(NH), NH)
        for nn in (1, 2, 3, 5):
            for lab, NH in _non_herm_structured(rng, nn).items():
                add(name, f"NH:{lab}:n={nn}", lambda f=f, NH=NH: f(NH), NH)
        add(name, "SP", lambda f=f: f(R.sparse_from_dense(_herm(rng, 3))))
    add_ns("tridiagonalize", lambda Ans: D.tridiagonalize(Ans))
    for mg in (1e-2, 1.0):
        NH = _non_herm(rng, 4, mg)
        add("tridiagonalize", f"NH:{mg}", lambda NH=NH: D.tridiagonalize(NH), NH)
    for nn in (2, 3, 6):
        for lab, NH in _non_herm_structured(rng, nn).items():
            add("tridiagonalize", f"NH:{lab}:n={nn}", lambda NH=NH: D.tridiagonalize(NH), NH)
    # LARGE arguments that violate A = A^H in a single entry (a guard that samples, or checks a leading block only, lets them pass):
    # n above 16 / 32 / 64 / 128, perturbed position at even and odd indices, first / middle / last rows, diagonal and off-diagonal
    for nn in (17, 33, 65, 80, 130):
        Hb = refq.fa(_herm(rng, nn))
        for (lab, i, j) in (("(0,1)", 0, 1), ("(1,3)", 1, 3), ("(n-2,n-1)", nn - 2, nn - 1), ("(n/2,n/2-1)", nn // 2, nn // 2 - 1),
                            ("(n-1,0)", nn - 1, 0), ("diag_odd", 2 * (nn // 4) + 1, 2 * (nn // 4) + 1), ("diag_last", nn - 1, nn - 1)):
            d = Hb.copy()
            d[i, j] = d[i, j] + (np.array([0.0, 0.7, -0.4, 0.5]) if i == j else np.array([0.8, 0.5, -0.6, 0.3]))
            NH = refq.qa(d)
            for name in ("quaternion_eigendecomposition", "quaternion_eigenvalues", "quaternion_eigenvectors"):
                f = getattr(D, name)
                add(name, f"NH:large_single_entry{lab}:n={nn}", lambda f=f, NH=NH: f(NH), NH)
            add("tridiagonalize", f"NH:large_single_entry{lab}:n={nn}", lambda NH=NH: D.tridiagonalize(NH), NH)
            add("det(Moore)", f"NH:large_single_entry{lab}:n={nn}", lambda NH=NH: U.det(NH, "Moore"), NH)
    one = refq.qa(np.array([[[2.0, 0, 0, 0]]]))
    add("tridiagonalize", "SZ:1x1", lambda: D.tridiagonalize(one), one)
    add("tridiagonalize", "SP", lambda: D.tridiagonalize(R.sparse_from_dense(_herm(rng, 3))))
    TR = R.tridiagonalize
    a3 = _q(rng, 3, 1)[:, 0].copy()
    add("householder_vector", "SZ", lambda: TR.householder_vector(a3, np.array([1.0, 0.0])), a3)
    add("householder_matrix", "SZ", lambda: TR.householder_matrix(a3, np.array([1.0, 0.0, 0.0, 0.0])), a3)
    # --- Hessenberg / Schur ----------------------------------------------------------------------------------
    HZ = R.hessenberg
    add_ns("hessenbergize", lambda Ans: HZ.hessenbergize(Ans))
    add("hessenbergize", "TN:order1", lambda: HZ.hessenbergize(v1), v1)
    add("hessenbergize", "TN:order3", lambda: HZ.hessenbergize(T3), T3)
    add("hessenbergize", "SP", lambda: HZ.hessenbergize(sp33))
    SC = R.schur
    schur_opts = {
        "quaternion_schur": ("shift", ["francis", "Rayleigh", "none", ""]),
        "quaternion_schur_pure": ("shift_mode", ["wilkinson", "Rayleigh", ""]),
        "quaternion_schur_pure_implicit": ("shift_mode", ["wilkinson", "Rayleigh"]),
        "quaternion_schur_unified": ("variant", ["AED", "double", "wilkinson", ""]),
        "quaternion_schur_experimental": ("variant", ["aed", "ds", "AED_WINDOWED", ""]),
    }
    for name, (optname, bads) in schur_opts.items():
        f = getattr(SC, name)
        add_ns(name, lambda Ans, f=f: f(Ans, max_iter=5))
        add(name, "NS:tall", lambda f=f: f(A32, max_iter=5), A32)
        add(name, "TN:order3", lambda f=f: f(T3, max_iter=5), T3)
        add(name, "SP", lambda f=f: f(sp33, max_iter=5))
        for bad in bads:
            add(name, f"OPT:{optname}={bad!r}", lambda f=f, optname=optname, bad=bad: f(A33, max_iter=5, **{optname: bad}), A33)
        # the unknown option value together with an input / budget for which the option is never CONSULTED (nothing to iterate on):
        # validation has to happen up front, not where the option is used
        bad = bads[0]
        trivial = {"upper_triangular": refq.qa(refq.fa(A33) * np.triu(np.ones((3, 3)))[..., None]), "identity": refq.eye(3), "zero": refq.zeros(3, 3),
                   "real_diagonal": refq.diagq([2.0, -1.0, 0.5]), "1x1": refq.qa(np.array([[[1.5, 0.5, 0.0, -1.0]]])), "2x2_triangular": refq.qa(refq.fa(A33)[:2, :2] * np.triu(np.ones((2, 2)))[..., None])}
        for lab, Atr in trivial.items():
            add(name, f"OPT:{optname}={bad!r}:input_{lab}", lambda f=f, optname=optname, bad=bad, Atr=Atr: f(Atr, max_iter=5, **{optname: bad}), Atr)
        add(name, f"OPT:{optname}={bad!r}:max_iter=0", lambda f=f, optname=optname, bad=bad: f(A33, max_iter=0, **{optname: bad}), A33)
    # --- tensors ------------------------------------------------------------------------------------------------
    T2 = _q(rng, 2, 3)
    T4 = quaternion.as_quat_array(rng.standard_normal((2, 2, 2, 2, 4)))
    T3r = rng.standard_normal((2, 3, 4))
    add("tensor_unfold", "TN:order2", lambda: T.tensor_unfold(T2, 0), T2)
    add("tensor_unfold", "TN:order4", lambda: T.tensor_unfold(T4, 0), T4)
    add("tensor_unfold", "DT:real", lambda: T.tensor_unfold(T3r, 0), T3r)
    T234 = quaternion.as_quat_array(rng.standard_normal((2, 3, 4, 4)))
    for bad in (3, -1, "a", None, 1.5):
        add("tensor_unfold", f"OPT:mode={bad!r}", lambda bad=bad: T.tensor_unfold(T234, bad), T234)
    for mode, good in ((0, (2, 12)), (1, (3, 8)), (2, (4, 6))):
        for lab, shp in (("transposed", good[::-1]), ("other_mode", (4, 6) if mode != 2 else (2, 12)), ("wrong_total", (good[0], good[1] + 1))):
            Mx = _q(rng, *shp)
            add("tensor_fold", f"FS:mode{mode}:{lab}", lambda Mx=Mx, mode=mode: T.tensor_fold(Mx, mode, (2, 3, 4)), Mx)
    M0 = _q(rng, 2, 12)
    for bad in (3, -1, "0"):
        add("tensor_fold", f"OPT:mode={bad!r}", lambda bad=bad: T.tensor_fold(M0, bad, (2, 3, 4)), M0)
    # --- images / QSLST ---------------------------------------------------------------------------------------------
    add("rgb_to_quat", "CH:4", lambda: Q.rgb_to_quat(rng.random((3, 3, 4))))
    add("rgb_to_quat", "CH:1", lambda: Q.rgb_to_quat(rng.random((3, 3, 1))))
    add("rgb_to_quat", "TN:order2", lambda: Q.rgb_to_quat(rng.random((3, 3))))
    add("quat_to_rgb", "CH:3", lambda: Q.quat_to_rgb(rng.random((3, 3, 3))))
    add("quat_to_rgb", "CH:5", lambda: Q.quat_to_rgb(rng.random((3, 3, 5))))
    add("quat_to_rgb", "TN:order2", lambda: Q.quat_to_rgb(rng.random((3, 4))))
    img = rng.standard_normal((4, 4, 4))
    psf = Q.build_psf_gaussian(1, 1.0)
    for bd in ("reflect", "zero", "Periodic", ""):
        add("apply_blur_fft", f"BD:{bd!r}", lambda bd=bd: Q.apply_blur_fft(img, psf, boundary=bd), img, psf)
        add("qslst_restore_fft", f"BD:{bd!r}", lambda bd=bd: Q.qslst_restore_fft(img, psf, 0.1, boundary=bd), img, psf)
    Aw = rng.standard_normal((15, 15))
    Ar = rng.standard_normal((16, 12))
    add("qslst_restore_matrix", "OP:too_small", lambda: Q.qslst_restore_matrix(img, Aw, 0.1), img, Aw)
    add("qslst_restore_matrix", "OP:rectangular", lambda: Q.qslst_restore_matrix(img, Ar, 0.1), img, Ar)
    return cells


def build_converse(R, rng):
    """In-domain boundary calls that must return: list of (entry, cls, thunk)."""
    U, S, D, T, Q = R.utils, R.solver, R.decomp, R.tensor, R.qslst
    SC, HZ = R.schur, R.hessenberg
    out = []

    def add(entry, cls, fn):
        out.append((entry, cls, fn))

    shapes = {"1x1": (1, 1), "1xn": (1, 4), "nx1": (4, 1), "rank0": (3, 2), "int": (3, 3)}

    def mat(cls, lay="C"):
        m, n = shapes[cls]
        if cls == "rank0":
            A = refq.zeros(m, n)
        elif cls == "int":
            A = gen.entries(rng, "int", m, n)
        else:
            A = refq.randq(rng, m, n)
        return gen.layout(A, lay)

    for cls in shapes:
        for lay in (gen.LAYOUTS if cls in ("1xn", "int") else ["C", "readonly"]):
            tag = f"{cls}:{lay}"
            add("matrix_norm(fro)", tag, lambda cls=cls, lay=lay: U.matrix_norm(mat(cls, lay)))
            add("matrix_norm(1)", tag, lambda cls=cls, lay=lay: U.matrix_norm(mat(cls, lay), 1))
            add("matrix_norm(inf)", tag, lambda cls=cls, lay=lay: U.matrix_norm(mat(cls, lay), np.inf))
            add("matrix_norm(2)", tag, lambda cls=cls, lay=lay: U.matrix_norm(mat(cls, lay), 2))
            add("real_expand", tag, lambda cls=cls, lay=lay: U.real_expand(mat(cls, lay)))
            add("rank", tag, lambda cls=cls, lay=lay: U.rank(mat(cls, lay)))
            for side in ("right", "left"):
                add(f"quat_null_space({side})", tag, lambda cls=cls, lay=lay, side=side: U.quat_null_space(mat(cls, lay), side=side))
            add("classical_qsvd_full", tag, lambda cls=cls, lay=lay: D.classical_qsvd_full(mat(cls, lay)))
            add("classical_qsvd(R=1)", tag, lambda cls=cls, lay=lay: D.classical_qsvd(mat(cls, lay), 1))
            add("qr_qua", tag, lambda cls=cls, lay=lay: R.qsvd.qr_qua(mat(cls, lay)))
            if cls != "rank0":
                add("quaternion_lu", tag, lambda cls=cls, lay=lay: D.quaternion_lu(mat(cls, lay)))
                add("quaternion_lu(return_p)", tag, lambda cls=cls, lay=lay: D.quaternion_lu(mat(cls, lay), return_p=True))
            add("quaternion_modulus", tag, lambda cls=cls, lay=lay: D.quaternion_modulus(mat(cls, lay)))
            add("quaternion_triu", tag, lambda cls=cls, lay=lay: D.quaternion_triu(mat(cls, lay)))
            if cls != "rank0":
                add("NewtonSchulzPseudoinverse.compute", tag,
                    lambda cls=cls, lay=lay: S.NewtonSchulzPseudoinverse(max_iter=5).compute(mat(cls, lay)))
                add("HigherOrderNewtonSchulzPseudoinverse.compute", tag,
                    lambda cls=cls, lay=lay: S.HigherOrderNewtonSchulzPseudoinverse(max_iter=3).compute(mat(cls, lay)))
                add("RSP.compute", tag,
                    lambda cls=cls, lay=lay: S.RandomizedSketchProjectPseudoinverse(block_size=2, max_iter=5).compute(mat(cls, lay)))
            if cls in ("1x1", "nx1", "int"):
                add("CGNEQSolver.compute", tag, lambda cls=cls, lay=lay: S.CGNEQSolver(max_iter=5).compute(mat(cls, lay)))
                add("HybridRSPNewtonSchulz.compute", tag,
                    lambda cls=cls, lay=lay: S.HybridRSPNewtonSchulz(r=1, max_iter=5).compute(mat(cls, lay)))
                add("RSP.compute_column_variant", tag,
                    lambda cls=cls, lay=lay: S.RandomizedSketchProjectPseudoinverse(block_size=1, max_iter=5).compute_column_variant(mat(cls, lay)))
            if cls in ("1x1", "1xn", "int"):
                add("RSP.compute_row_variant", tag,
                    lambda cls=cls, lay=lay: S.RandomizedSketchProjectPseudoinverse(block_size=1, max_iter=5).compute_row_variant(mat(cls, lay)))

    def sq(kind, n, lay="C"):
        if kind == "zero":
            A = refq.zeros(n, n)
        elif kind == "herm":
            A = _herm(rng, n) if n > 1 else refq.qa(np.array([[[1.5, 0, 0, 0]]]))
        elif kind == "int":
            A = gen.entries(rng, "int", n, n)
        else:
            A = refq.randq(rng, n, n)
        return gen.layout(A, lay)

    for kind, n in (("gen", 1), ("gen", 2), ("zero", 3), ("int", 3), ("herm", 1), ("herm", 3)):
        for lay in ("C", "readonly", "F", "strided"):
            tag = f"{kind}{n}x{n}:{lay}"
            add("ishermitian", tag, lambda kind=kind, n=n, lay=lay: U.ishermitian(sq(kind, n, lay)))
            add("det(Dieudonne)", tag, lambda kind=kind, n=n, lay=lay: U.det(sq(kind, n, lay), "Dieudonné"))
            add("power_iteration", tag, lambda kind=kind, n=n, lay=lay: U.power_iteration(sq(kind, n, lay), return_eigenvalue=True))
            add("power_iteration_nonhermitian", tag, lambda kind=kind, n=n, lay=lay: U.power_iteration_nonhermitian(sq(kind, n, lay), max_iterations=50))
            add("quaternion_to_complex_adjoint", tag, lambda kind=kind, n=n, lay=lay: U.quaternion_to_complex_adjoint(sq(kind, n, lay)))
            add("hessenbergize", tag, lambda kind=kind, n=n, lay=lay: HZ.hessenbergize(sq(kind, n, lay)))
            for name in ("quaternion_schur", "quaternion_schur_pure", "quaternion_schur_pure_implicit",
                         "quaternion_schur_unified", "quaternion_schur_experimental"):
                add(name, tag, lambda kind=kind, n=n, lay=lay, name=name: getattr(SC, name)(sq(kind, n, lay), max_iter=10))
            if kind in ("herm", "zero") or n == 1:
                Hk = "herm" if kind != "zero" else "zero"
                add("quaternion_eigendecomposition", tag, lambda Hk=Hk, n=n, lay=lay: D.quaternion_eigendecomposition(sq(Hk, n, lay)))
                add("det(Moore)", tag, lambda Hk=Hk, n=n, lay=lay: U.det(sq(Hk, n, lay), "Moore"))
                if n >= 2:
                    add("tridiagonalize", tag, lambda Hk=Hk, n=n, lay=lay: D.tridiagonalize(sq(Hk, n, lay)))
            if kind in ("gen", "int"):
                for prec in (None, "left_lu"):
                    add(f"QGMRESSolver.solve[{prec or 'none'}]", tag,
                        lambda kind=kind, n=n, lay=lay, prec=prec: S.QGMRESSolver(preconditioner=prec).solve(
                            sq(kind, n, lay), gen.layout(refq.randq(rng, n, 1), lay)))
    # Q-GMRES accepts ANY square system, whatever its rank or storage, with either preconditioner (a preconditioner that cannot be built is
    # documented to be skipped): singular matrices that stop the LU at the first, a middle or the last pivot, the zero matrix, and
    # SparseQuaternionMatrix operands; generic and zero right-hand sides
    def sing(kind, n):
        A = refq.randq(rng, n, n)
        if kind == "zero":
            A = refq.zeros(n, n)
        elif kind == "rank1":
            A = refq.matmul(refq.randq(rng, n, 1), refq.randq(rng, 1, n))
        elif kind == "zero_first_col":
            A[:, 0] = np.quaternion(0, 0, 0, 0)
        elif kind == "dependent_mid_col":
            A[:, 1] = A[:, 0] * np.quaternion(0, 1, 0, 0)
        elif kind == "dependent_last_col":
            A[:, n - 1] = A[:, 0] + A[:, 1]
        return A
    for kind in ("zero", "rank1", "zero_first_col", "dependent_mid_col", "dependent_last_col", "gen"):
        for n in (3, 5):
            for sp_ in (False, True):
                for prec in (None, "left_lu"):
                    for rhs in ("gen", "zero"):
                        if rhs == "zero" and kind not in ("gen", "rank1"):
                            continue
                        def f(kind=kind, n=n, sp_=sp_, prec=prec, rhs=rhs):
                            A = sing(kind, n)
                            b = refq.randq(rng, n, 1) if rhs == "gen" else refq.zeros(n, 1)
                            return S.QGMRESSolver(preconditioner=prec, tol=1e-8).solve(R.sparse_from_dense(A) if sp_ else A, b)
                        add(f"QGMRESSolver.solve[{prec or 'none'}]", f"rank:{kind}:{n}x{n}:{'sparse' if sp_ else 'dense'}:rhs_{rhs}", f)
    # tridiagonalize smallest size
    add("tridiagonalize", "2x2", lambda: D.tridiagonalize(_herm(rng, 2)))
    # tensors with singleton dimensions
    for shp in ((1, 1, 1), (1, 3, 1), (2, 1, 3), (1, 1, 4)):
        for mode in range(3):
            def f(shp=shp, mode=mode):
                X = quaternion.as_quat_array(rng.standard_normal(shp + (4,)))
                return T.tensor_fold(T.tensor_unfold(X, mode), mode, shp)
            add("tensor_unfold/fold", f"{shp}:mode{mode}", f)
    # images
    add("rgb_to_quat", "1x1", lambda: Q.rgb_to_quat(rng.random((1, 1, 3))))
    add("quat_to_rgb", "1x1", lambda: Q.quat_to_rgb(rng.random((1, 1, 4))))
    add("rgb_to_quat", "1xn:int", lambda: Q.rgb_to_quat(rng.integers(0, 255, size=(1, 5, 3))))
    for H, W in ((1, 1), (1, 5), (4, 1), (3, 3)):
        def g(H=H, W=W):
            img = rng.standard_normal((H, W, 4))
            psf = np.array([[1.0]])
            B = Q.apply_blur_fft(img, psf)
            X = Q.qslst_restore_fft(B, psf, 0.1)
            A = np.eye(H * W)
            return Q.qslst_restore_matrix(B, A, 0.1), X
        add("qslst(blur,restore_fft,restore_matrix)", f"{H}x{W}:psf1x1", g)
    add("build_psf_gaussian", "radius0", lambda: Q.build_psf_gaussian(0, 1.0))
    add("build_psf_motion", "length1", lambda: Q.build_psf_motion(1, 30.0))
    # ---- in-domain arguments in the FORMS a caller may hold them in: numpy integers / floats / strings for option values, keyword
    # instead of positional, lists that numpy converts, read-only views - none of these may be rejected
    import math
    A43, A33 = refq.randq(rng, 4, 3), refq.randq(rng, 3, 3)
    H3 = _herm(rng, 3)
    T234 = quaternion.as_quat_array(rng.standard_normal((2, 3, 4, 4)))
    for md in (0, 1, 2):
        for ty in (np.int64, np.int32, np.intp, np.uint8):
            add("tensor_unfold", f"form:mode={ty.__name__}({md})", lambda md=md, ty=ty: T.tensor_unfold(T234, ty(md)))
            add("tensor_fold", f"form:mode={ty.__name__}({md})", lambda md=md, ty=ty: T.tensor_fold(T.tensor_unfold(T234, md), ty(md), (2, 3, 4)))
        add("tensor_unfold", f"form:mode_keyword({md})", lambda md=md: T.tensor_unfold(T234, mode=md))
        add("tensor_fold", f"form:shape_as_list({md})", lambda md=md: T.tensor_fold(T.tensor_unfold(T234, md), md, [2, 3, 4]))
        add("tensor_fold", f"form:shape_numpy_ints({md})", lambda md=md: T.tensor_fold(T.tensor_unfold(T234, md), md, tuple(np.int64(x) for x in (2, 3, 4))))
    for lab, o in (("np.int64(1)", np.int64(1)), ("np.int32(2)", np.int32(2)), ("1.0", 1.0), ("np.float64(2)", np.float64(2.0)),
                   ("float('inf')", float("inf")), ("math.inf", math.inf), ("np.float64(inf)", np.float64("inf")), ("np.float32(inf)", np.float32("inf")),
                   ("np.str_('fro')", np.str_("fro")), ("np.str_('inf')", np.str_("inf")), ("ord_keyword", None)):
        if lab == "ord_keyword":
            add("matrix_norm", "form:ord_keyword", lambda: U.matrix_norm(A43, ord=1))
        else:
            add("matrix_norm", "form:ord=" + lab, lambda o=o: U.matrix_norm(A43, o))
    for ty in (np.int64, np.int32, np.intp, np.uint8):
        add("classical_qsvd", f"form:R={ty.__name__}", lambda ty=ty: D.classical_qsvd(A43, ty(2)))
        add("rand_qsvd", f"form:R={ty.__name__}", lambda ty=ty: R.qsvd.rand_qsvd(A43, ty(2), oversample=ty(1), n_iter=ty(1)))
        add("pass_eff_qsvd", f"form:R={ty.__name__}", lambda ty=ty: R.qsvd.pass_eff_qsvd(A43, ty(2), oversample=ty(1), n_passes=ty(2)))
        add("quat_eye", f"form:n={ty.__name__}", lambda ty=ty: U.quat_eye(ty(3)))
        add("power_iteration", f"form:max_iterations={ty.__name__}", lambda ty=ty: U.power_iteration(H3, max_iterations=ty(20)))
        add("NewtonSchulzPseudoinverse", f"form:max_iter={ty.__name__}", lambda ty=ty: S.NewtonSchulzPseudoinverse(max_iter=ty(3)).compute(A43))
        add("QGMRESSolver", f"form:max_iter={ty.__name__}", lambda ty=ty: S.QGMRESSolver(max_iter=ty(2)).solve(A33, refq.randq(rng, 3, 1)))
        add("RSP", f"form:block_size={ty.__name__}", lambda ty=ty: S.RandomizedSketchProjectPseudoinverse(block_size=ty(2), max_iter=ty(3), seed=ty(1)).compute(A43))
        add("build_psf_gaussian", f"form:radius={ty.__name__}", lambda ty=ty: Q.build_psf_gaussian(ty(1), 1.0))
        add("build_psf_motion", f"form:length={ty.__name__}", lambda ty=ty: Q.build_psf_motion(ty(3), 30.0))
        for name in ("quaternion_schur", "quaternion_schur_unified"):
            add(name, f"form:max_iter={ty.__name__}", lambda ty=ty, name=name: getattr(SC, name)(A33, max_iter=ty(5)))
    for sd in ("right", "left"):
        add("quat_null_space", f"form:side=np.str_({sd})", lambda sd=sd: U.quat_null_space(A43, side=np.str_(sd)))
        add("quat_kernel", f"form:side_keyword({sd})", lambda sd=sd: U.quat_kernel(A43, side=sd))
    for dt in ("Dieudonne", "Dieudonné", "Moore"):
        add("det", f"form:type=np.str_({dt})", lambda dt=dt: U.det(H3, np.str_(dt)))
    add("det", "form:keyword", lambda: U.det(X=H3, d="Moore"))
    for lm in (1, np.float64(0.5), np.float32(0.25), np.int64(2)):
        add("qslst_restore_fft", f"form:lam={type(lm).__name__}", lambda lm=lm: Q.qslst_restore_fft(rng.standard_normal((4, 3, 4)), np.ones((3, 3)) / 9.0, lm))
    add("apply_blur_fft", "form:psf_integer_dtype", lambda: Q.apply_blur_fft(rng.standard_normal((4, 4, 4)), np.array([[1, 2, 1], [2, 4, 2], [1, 2, 1]])))
    add("apply_blur_fft", "form:psf_as_list", lambda: Q.apply_blur_fft(rng.standard_normal((4, 4, 4)), np.asarray([[0.25, 0.5, 0.25]])))
    add("quaternion_lu", "form:return_p_numpy_bool", lambda: D.quaternion_lu(A33, return_p=np.bool_(True)))
    add("quaternion_lu", "form:return_p_positional", lambda: D.quaternion_lu(A33, True))
    return out


def cases(tier, seed):
    # the table is a function of the repository only; cells are split over shards by index
    return [{"kind": "table", "cls": "guard_table", "part": i, "parts": 4, "seed": 0} for i in range(4)] + \
           [{"kind": "converse", "cls": "converse_table", "part": i, "parts": 4, "seed": seed} for i in range(4)]


def run_case(spec, ctx, R):
    if spec["kind"] == "table":
        rng = gen.rng_for(0, "c20table")
        cells = build_table(R, rng)
        for i, (entry, cls, fn, args) in enumerate(cells):
            if i % spec["parts"] != spec["part"]:
                continue
            ctx.distinct("cell", entry, cls)
            before = digest(*[a for a in args if isinstance(a, np.ndarray)])
            try:
                np.random.seed(0)
                r = fn()
                ctx.check("rejects", False, site=entry, tags=[cls], detail={"returned": type(r).__name__})
            except Exception as e:
                ctx.check("rejects", True, site=entry, tags=[cls])
                ctx.hit(f"raised:{type(e).__name__}")
            after = digest(*[a for a in args if isinstance(a, np.ndarray)])
            ctx.check("no_mutation_before_raise", before == after, site=entry, tags=[cls])
        if spec["part"] == 0:
            ctx.sample({"cells": len(cells), "example_cells": [[c[0], c[1]] for c in cells[:6]]})
    else:
        rng = gen.rng_for(spec["seed"], "c20conv")
        conv = build_converse(R, rng)
        for i, (entry, cls, fn) in enumerate(conv):
            if i % spec["parts"] != spec["part"]:
                continue
            ctx.distinct("converse", entry, cls)
            try:
                np.random.seed(0)
                with np.errstate(all="ignore"):
                    fn()
                ctx.check("accepts_in_domain", True, site=entry, tags=[cls])
            except Exception as e:
                ctx.check("accepts_in_domain", False, site=entry, tags=[cls.split(":")[0]], detail={"exception": repr(e)[:300], "cls": cls})
        if spec["part"] == 0:
            ctx.sample({"converse_calls": len(conv), "example": [[c[0], c[1]] for c in conv[:6]]})
