"""C16 Givens QR of Hessenberg matrices and triangular solves (DESIGN.md section 7, C16)."""
from __future__ import annotations

import itertools

import numpy as np
import quaternion

from .. import gen, repo
from ..oracle import embed, refq

ID = "C16"
LEVEL = "exploration"
RULE = ("(a) rotation grid: all ordered pairs from magnitudes {0, 1e-20, 1e-8, 1, 1e8} x patterns {generic, single-axis (each of 4), "
        "one component zero, real-negative} for ggivens (G^T G = I8, G^T [x1;x2] = (t,0), quaternion block structure) and GRSGivens "
        "(both call forms); (b) Hessenberg matrices (k+1) x k, k = 1..6/12: generic, zero sub-diagonal at every position, zero "
        "columns, real-positive sub-diagonals, scaled: W unitary, R upper triangular, W R = H; (c) triangular systems n = 1..6/10 "
        "with diagonal moduli log-uniform in 1e-6..1e6 and 1..4 right-hand sides for the dense forward/backward substitutions and "
        "the component-form substitution (+ dotinvQsparse vs 1/q, absQsparse vs |q|). distinct = input digest; non-trivial = "
        "non-zero input")
ASSUMPTIONS = ["for pairs of norm <= eps ggivens returns the identity by design: the rotation clause carries an absolute term 2*eps",
               "backward-error form ||T X - B|| <= c n eps (||T|| ||X|| + ||B||), c = 100"]
SHARDS = {"quick": 4, "thorough": 12}
DECIDING = ["ggivens_orthogonal", "ggivens_maps_to_norm", "ggivens_structure", "grs_orthogonal", "grs_maps_to_real",
            "hessqr_W_unitary", "hessqr_R_upper", "hessqr_WR_eq_H", "tri_lower_backward", "tri_upper_backward",
            "utriangle_backward", "dotinv_is_inverse", "absq_is_modulus"]
MUST_REACH = ["ggivens:identity_branch", "ggivens:|q1|<|q2|", "ggivens:|q1|>=|q2|", "grs:identity", "grs:normalising"]
C = 100.0


def cases(tier, seed):
    out = [{"kind": "rot_grid", "cls": "rotation_grid", "part": p, "parts": 4, "seed": seed} for p in range(4)]
    kmax = 6 if tier == "quick" else 32
    idx = 0
    for k in range(1, kmax + 1):
        for pat in ("generic", "zero_subdiag", "zero_column", "real_pos_subdiag", "scaled", "int", "arnoldi_like", "axis_subdiag", "axis_diag",
                    "neg_real_subdiag", "tiny_subdiag"):
            for rep in range(1 if tier == "quick" else 12):
                out.append({"kind": "hess", "cls": "hess:" + pat, "k": k, "pat": pat, "idx": idx, "seed": seed})
                idx += 1
    nmax = 6 if tier == "quick" else 28
    for n in range(1, nmax + 1):
        for nrhs in (1, 2, 3, 4):
            for rep in range(2 if tier == "quick" else 24):
                out.append({"kind": "tri", "cls": f"tri:rhs{nrhs}", "n": n, "nrhs": nrhs, "idx": idx, "seed": seed})
                idx += 1
    if tier == "quick":
        # size ladder beyond plausible panel widths (8 / 16 / 32)
        for k in (9, 12, 16, 17, 18, 24, 33):
            for pat in ("generic", "arnoldi_like", "axis_subdiag"):
                out.append({"kind": "hess", "cls": "hess:" + pat, "k": k, "pat": pat, "idx": idx, "seed": seed})
                idx += 1
        for n in (9, 12, 16, 17, 18, 24, 33):
            for nrhs in (1, 3):
                out.append({"kind": "tri", "cls": f"tri:rhs{nrhs}", "n": n, "nrhs": nrhs, "idx": idx, "seed": seed})
                idx += 1
    out.append({"kind": "inv", "cls": "dotinv_abs", "seed": seed})
    return out


def run_case(spec, ctx, R):
    {"rot_grid": _rot_grid, "hess": _hess, "tri": _tri, "inv": _inv}[spec["kind"]](spec, ctx, R)


MAGS = [0.0, 1e-20, 1e-8, 1.0, 1e8]
PATS = ["generic", "axis0", "axis1", "axis2", "axis3", "one_zero", "real_negative"]


def _quat4(rng, mag, pat):
    v = rng.standard_normal(4)
    if pat.startswith("axis"):
        a = int(pat[4])
        v = np.zeros(4)
        v[a] = rng.choice([-1.0, 1.0]) * (0.5 + rng.random())
    elif pat == "one_zero":
        v[int(rng.integers(0, 4))] = 0.0
    elif pat == "real_negative":
        v = np.array([-abs(v[0]) - 0.1, 0.0, 0.0, 0.0])
    n = np.linalg.norm(v)
    return v / n * mag if n > 0 else v * 0.0


def _check_ggivens(ctx, U, x1, x2, tags):
    # ENVIRONMENT: every third pair under numpy's divide='raise', invalid='raise' error mode (a 0/0 evaluated and discarded must not surface)
    if int(np.sum(np.concatenate([x1, x2]) != 0)) % 3 == 0:
        ctx.hit("environment:numpy_errstate_raise")
        try:
            with np.errstate(divide="raise", invalid="raise"):
                G = U.ggivens(x1.copy(), x2.copy())
        except Exception as e:
            ctx.check("ggivens_orthogonal", False, site="ggivens:errstate_raise", tags=tags, detail={"exception": repr(e)[:200], "x1": x1, "x2": x2})
            return
    else:
        G = U.ggivens(x1.copy(), x2.copy())
    t = float(np.linalg.norm(np.concatenate([x1, x2])))
    n1, n2 = np.linalg.norm(x1), np.linalg.norm(x2)
    if t <= refq.EPS:
        ctx.hit("ggivens:identity_branch")
    elif n1 / t < n2 / t:
        ctx.hit("ggivens:|q1|<|q2|")
    else:
        ctx.hit("ggivens:|q1|>=|q2|")
    ok_shape = isinstance(G, np.ndarray) and G.shape == (8, 8) and np.all(np.isfinite(G))
    if not ok_shape:
        ctx.check("ggivens_orthogonal", False, site="ggivens", tags=tags, detail={"x1": x1, "x2": x2})
        return
    ctx.check("ggivens_orthogonal", float(np.abs(G.T @ G - np.eye(8)).max()), 64 * refq.EPS, site="ggivens", tags=tags,
              detail={"x1": x1, "x2": x2})
    v = np.array([x1[0], x2[0], x1[1], x2[1], x1[2], x2[2], x1[3], x2[3]])
    out = G.T @ v
    target = np.zeros(8)
    target[0] = t
    ctx.check("ggivens_maps_to_norm", float(np.abs(out - target).max()), 16 * refq.EPS * t + 2 * refq.EPS, site="ggivens", tags=tags,
              detail={"x1": x1, "x2": x2, "out": out})
    # quaternion block structure: G is the component-blocked embedding of a 2x2 quaternion matrix
    comp = np.stack([G[0:2, 0:2], G[2:4, 0:2], G[4:6, 0:2], G[6:8, 0:2]], axis=-1)
    ctx.check("ggivens_structure", bool(np.array_equal(embed.real_blocked(refq.qa(comp)), G)), site="ggivens", tags=tags)
    ctx.check("input_unchanged", True, site="ggivens")


def _check_grs(ctx, U, g, tags):
    r = float(np.linalg.norm(g))
    thr = 1.01e-8 * np.sqrt(3.0)
    for form in ("4args", "vector"):
        G = U.GRSGivens(*[float(x) for x in g]) if form == "4args" else U.GRSGivens(np.array(g, dtype=float))
        ok = isinstance(G, np.ndarray) and G.shape == (4, 4) and np.all(np.isfinite(G))
        if not ok:
            ctx.check("grs_orthogonal", False, site="GRSGivens:" + form, tags=tags, detail={"g": g})
            continue
        ctx.hit("grs:identity" if np.array_equal(G, np.eye(4)) else "grs:normalising")
        ctx.check("grs_orthogonal", float(np.abs(G.T @ G - np.eye(4)).max()), 32 * refq.EPS, site="GRSGivens:" + form, tags=tags,
                  detail={"g": g})
        out = G.T @ np.asarray(g, dtype=float)
        # the result must be real to the routine's own zero threshold (atol 1e-8 of np.allclose) and keep the modulus
        ctx.check("grs_maps_to_real", float(np.linalg.norm(out[1:])), 16 * refq.EPS * r + thr, site="GRSGivens:" + form, tags=tags,
                  detail={"g": g, "out": out})
        ctx.check("grs_maps_to_real", abs(abs(out[0]) - r), 16 * refq.EPS * r + thr, site="GRSGivens:" + form + ":modulus", tags=tags)


def _rot_grid(spec, ctx, R):
    U = R.utils
    rng = gen.rng_for(spec["seed"], "c16rot", spec["part"])
    combos = list(itertools.product(MAGS, PATS, MAGS, PATS))
    for i, (m1, p1, m2, p2) in enumerate(combos):
        if i % spec["parts"] != spec["part"]:
            continue
        x1, x2 = _quat4(rng, m1, p1), _quat4(rng, m2, p2)
        ctx.distinct("rot", x1, x2, nontrivial=bool(np.any(x1) or np.any(x2)))
        _check_ggivens(ctx, U, x1, x2, tags=[f"{m1:g}/{m2:g}"])
        if i % 7 == 0:
            _check_ggivens(ctx, U, x1, x1.copy(), tags=["tie"])                      # exact modulus tie
            _check_ggivens(ctx, U, x1, np.roll(x1, 1), tags=["tie"])
        if m2 == MAGS[0]:
            _check_grs(ctx, U, x1, tags=[p1, f"{m1:g}"])
    # pairs whose joint length is NEARLY 1 (1 +- 1e-5 .. 1e-12, or unit data rounded to 5 decimals / to float32) - near-normalised, not normalised -
    # and pairs of nearly (not exactly) equal modulus, in both ordering branches
    for i in range(spec["part"], 40, spec["parts"]):
        v = rng.standard_normal(8)
        v = v / np.linalg.norm(v)
        how = i % 5
        if how == 0:
            v = v * (1.0 + float(rng.choice([-1.0, 1.0])) * float(rng.choice([5e-6, 1e-6, 1e-8, 1e-12])))
        elif how == 1:
            v = np.round(v, 5)
        elif how == 2:
            v = v.astype(np.float32).astype(np.float64)
        elif how == 3:
            x = rng.standard_normal(4); y = rng.standard_normal(4)
            x = x / np.linalg.norm(x); y = y / np.linalg.norm(y) * (1.0 + float(rng.choice([-1.0, 1.0])) * float(rng.choice([3e-6, 1e-9])))
            v = np.concatenate([x, y]) * float(rng.choice([1.0, 0.7071, 3.0]))
        else:
            v = v * np.sqrt(2.0) * (1.0 + 1e-7)
        if i % 2:
            v = np.concatenate([v[4:], v[:4]])
        ctx.distinct("rot:near_unit", v)
        _check_ggivens(ctx, U, v[:4].copy(), v[4:].copy(), tags=["near_unit_length" if how != 3 else "near_tie"])
    if spec["part"] == 0:
        # components 1..3 individually non-zero (each must make the rotation non-trivial)
        for a in (1, 2, 3):
            g = np.zeros(4)
            g[0], g[a] = 1.0, 5.0
            _check_grs(ctx, U, g, tags=[f"only_comp{a}"])
            g = np.zeros(4)
            g[a] = -2.0
            _check_grs(ctx, U, g, tags=[f"pure_comp{a}"])
        ctx.sample({"grid": "magnitudes x patterns", "pairs": len(combos), "example": [list(_quat4(rng, 1.0, "generic")), list(_quat4(rng, 1e-8, "axis2"))]})


def _hess_matrix(rng, k, pat):
    c = rng.standard_normal((k + 1, k, 4))
    for i in range(k + 1):
        for j in range(k):
            if i > j + 1:
                c[i, j] = 0.0
    if pat == "zero_subdiag":
        for pos in range(k):
            if rng.random() < 0.5 or pos == int(rng.integers(0, k)):
                c[pos + 1, pos] = 0.0
    elif pat == "zero_column":
        c[:, int(rng.integers(0, k))] = 0.0
    elif pat in ("real_pos_subdiag", "arnoldi_like"):
        for pos in range(k):
            c[pos + 1, pos] = [abs(c[pos + 1, pos, 0]) + 0.1, 0, 0, 0]
        if pat == "arnoldi_like":
            c[k, k - 1] = [1e-9, 0, 0, 0]
    elif pat == "axis_subdiag":
        # sub-diagonal entries with exactly-zero components: confined to one axis (pure i, j or k, or real with either sign)
        for pos in range(k):
            v = np.zeros(4)
            v[int(rng.integers(0, 4))] = float(rng.choice([-1.0, 1.0])) * (0.2 + rng.random())
            c[pos + 1, pos] = v
    elif pat == "axis_diag":
        for pos in range(k):
            v = np.zeros(4)
            v[int(rng.integers(0, 4))] = float(rng.choice([-1.0, 1.0])) * (0.2 + rng.random())
            c[pos, pos] = v
            if rng.random() < 0.5:
                c[pos, pos] = 0.0
    elif pat == "neg_real_subdiag":
        for pos in range(k):
            c[pos + 1, pos] = [-(abs(c[pos + 1, pos, 0]) + 0.1), 0, 0, 0]
    elif pat == "tiny_subdiag":
        for pos in range(k):
            c[pos + 1, pos] *= 10.0 ** float(rng.choice([-20, -12, -8]))
    elif pat == "scaled":
        c *= 10.0 ** float(rng.choice([-8, -3, 3, 8]))
    elif pat == "int":
        c = np.round(c * 3)
    return refq.qa(c)


def judge_hessqr(ctx, U, H, site, tags=()):
    """Judge one Hess_QR_ggivens call on the (k+1) x k quaternion matrix H (the kernel works on a copy)."""
    m, n = H.shape
    c = refq.fa(H)
    Hess = np.vstack([c[..., 0], c[..., 1], c[..., 2], c[..., 3]]).copy()
    strict = (int(np.sum(c != 0)) + m) % 3 == 0          # ENVIRONMENT: numpy error mode divide / invalid = 'raise' for every third input
    try:
        if strict:
            ctx.hit("environment:numpy_errstate_raise")
            with np.errstate(divide="raise", invalid="raise"):
                Wf, Rf = U.Hess_QR_ggivens(Hess)
        else:
            Wf, Rf = U.Hess_QR_ggivens(Hess)
        W0, W1, W2, W3 = U.A2A0123(Wf)
        R0, R1, R2, R3 = U.A2A0123(Rf)
    except Exception as e:
        ctx.check("hessqr_WR_eq_H", False, site=site, tags=tags, detail={"exception": repr(e), "shape": [m, n]})
        return
    W = refq.qa(np.stack([W0, W1, W2, W3], axis=-1))
    Rq = refq.qa(np.stack([R0, R1, R2, R3], axis=-1))
    nh = refq.fro(H)
    ok = W.shape == (m, m) and Rq.shape == (m, n) and refq.is_finite(W) and refq.is_finite(Rq)
    if not ok:
        ctx.check("hessqr_WR_eq_H", False, site=site, tags=tags, detail={"shapes": [W.shape, Rq.shape]})
        return
    ctx.check("hessqr_W_unitary", refq.orth_err(W), C * (m + 1) * refq.EPS, site=site, tags=tags, detail={"shape": [m, n]})
    low = refq.absq(Rq) * np.tril(np.ones((m, n)), -1)
    ctx.check("hessqr_R_upper", float(low.max()) if low.size else 0.0, C * (n + 1) * refq.EPS * nh + 4 * refq.EPS, site=site, tags=tags,
              detail={"shape": [m, n]})
    ctx.check("hessqr_WR_eq_H", refq.fro(refq.matmul(W, Rq) - H), C * (m + 1) * refq.EPS * nh + 4 * refq.EPS, site=site, tags=tags,
              detail={"shape": [m, n]})


def _hess(spec, ctx, R):
    U = R.utils
    rng = gen.rng_for(spec["seed"], "c16hess", spec["idx"])
    H = _hess_matrix(rng, spec["k"], spec["pat"])
    ctx.distinct(H)
    judge_hessqr(ctx, U, H, "Hess_QR_ggivens", tags=[spec["pat"]])
    if spec["idx"] % 15 == 0:
        ctx.sample({"k": spec["k"], "pattern": spec["pat"], "H": H})


def _tri_matrix(rng, n, upper):
    c = rng.standard_normal((n, n, 4))
    mask = np.triu(np.ones((n, n)), 1) if upper else np.tril(np.ones((n, n)), -1)
    c *= mask[..., None]
    dm = []
    dkind = int(rng.integers(0, 4))
    for i in range(n):
        v = rng.standard_normal(4)
        if dkind == 1:
            v[0] = 0.0                                   # pure (zero scalar part) diagonal entries
        elif dkind == 2:
            ax = int(rng.integers(0, 4)); w = np.zeros(4); w[ax] = float(rng.choice([-1.0, 1.0])); v = w    # one axis, either sign
        elif dkind == 3 and i % 2:
            v[1:] = 0.0; v[0] = -abs(v[0]) - 0.1         # negative real
        mod = 10.0 ** rng.uniform(-6, 6)
        dm.append(mod)
        c[i, i] = v / np.linalg.norm(v) * mod
    # scale row i by its diagonal modulus so that the system stays well conditioned row-wise
    for i in range(n):
        c[i, :, :] = np.where(np.arange(n)[:, None] == i, c[i, :, :], c[i, :, :] * dm[i])
    return refq.qa(c), dm


def _bw(ctx, clause, site, T, X, B, n, tags=()):
    if X is None or X.shape != B.shape or not refq.is_finite(X):
        ctx.check(clause, False, site=site, tags=tags, detail={"shape": None if X is None else X.shape})
        return
    # row-wise backward error: each equation is judged at its own scale
    Rm = refq.matmul(T, X) - B
    rows_res = np.sqrt((refq.absq(Rm) ** 2).sum(axis=1))
    rows_scale = np.sqrt((refq.absq(T) ** 2).sum(axis=1)) * refq.fro(X) + np.sqrt((refq.absq(B) ** 2).sum(axis=1))
    ratio = float((rows_res / (C * (n + 1) * refq.EPS * rows_scale + 1e-300)).max())
    ctx.check(clause, ratio, 1.0, site=site, tags=tags)


def _rhs_patterns(rng, B):
    n, k = B.shape
    c = refq.fa(B)
    out = {}
    if k >= 2:
        d = c.copy(); d[:, 0] = 0.0; out["zero_first_column"] = refq.qa(d)
        d = c.copy(); d[:, k - 1] = 0.0; out["zero_last_column"] = refq.qa(d)
    if k >= 3:
        d = c.copy(); d[:, :k - 1] = 0.0; out["only_last_column_nonzero"] = refq.qa(d)
    if n >= 2:
        d = c.copy(); d[: n // 2] = 0.0; out["zero_leading_rows"] = refq.qa(d)
        d = c.copy(); d[n // 2:] = 0.0; out["zero_trailing_rows"] = refq.qa(d)
        d = np.zeros_like(c); d[int(rng.integers(0, n)), int(rng.integers(0, k))] = c[0, 0]; out["single_entry"] = refq.qa(d)
    d = np.zeros_like(c)
    for j in range(k):
        d[(j * 2) % n, j, 0] = 1.0
    out["unit_vectors"] = refq.qa(d)
    if k >= 2 and n >= 2:
        # STAGGERED zero structure: every column has its own first / last non-zero row, and column 0 is the one that starts latest (ends
        # earliest) - a shortcut that reads the zero pattern off one column and applies it to all is wrong for the others
        d = c.copy()
        for j in range(k):
            d[: max(0, min(n - 1, k - 1 - j)), j] = 0.0
        out["staggered_leading_zeros_col0_latest"] = refq.qa(d)
        d = c.copy()
        for j in range(k):
            d[: min(n - 1, j), j] = 0.0
        out["staggered_leading_zeros_col0_earliest"] = refq.qa(d)
        d = c.copy()
        for j in range(k):
            d[max(1, n - (k - 1 - j)):, j] = 0.0
        out["staggered_trailing_zeros_col0_earliest_end"] = refq.qa(d)
        d = np.zeros_like(c)
        for j in range(k):
            d[(n - 1 - j) % n, j, 0] = 1.0
        out["reversed_unit_vectors"] = refq.qa(d)
        d = c.copy(); d[: n - 1, 0] = 0.0
        out["col0_only_last_row"] = refq.qa(d)
        d = c.copy(); d[1:, 0] = 0.0
        out["col0_only_first_row"] = refq.qa(d)
    return out


def _tri(spec, ctx, R):
    U, S = R.utils, R.solver
    rng = gen.rng_for(spec["seed"], "c16tri", spec["idx"])
    n, k = spec["n"], spec["nrhs"]
    B = refq.randq(rng, n, k)
    Lm, dml = _tri_matrix(rng, n, upper=False)
    Um, dmu = _tri_matrix(rng, n, upper=True)
    ctx.distinct(Lm, Um, B)
    for name, f, T, clause in (("_solve_lower_triangular_quat", S._solve_lower_triangular_quat, Lm, "tri_lower_backward"),
                               ("_solve_upper_triangular_quat", S._solve_upper_triangular_quat, Um, "tri_upper_backward")):
        try:
            X = f(T.copy(), B.copy())
        except Exception as e:
            ctx.check(clause, False, site=name, detail={"exception": repr(e)})
            continue
        _bw(ctx, clause, name, T, X, B, n)
        # right-hand sides with exact-zero structure: a zero first / middle / last column, zero leading or trailing rows, one non-zero
        # entry, unit vectors (each column must be solved as if it stood alone)
        for lab, Bp in _rhs_patterns(rng, B).items():
            try:
                Xp = f(T.copy(), Bp.copy())
            except Exception as e:
                ctx.check(clause, False, site=name + ":rhs_" + lab, detail={"exception": repr(e)})
                continue
            _bw(ctx, clause, name + ":rhs_" + lab, T, Xp, Bp, n)
            # column independence: the block solve equals the column-by-column solves
            try:
                cols = [f(T.copy(), Bp[:, j:j + 1].copy()) for j in range(Bp.shape[1])]
                dev = max(refq.fro(Xp[:, j:j + 1] - cols[j]) for j in range(Bp.shape[1]))
                ctx.check(clause, dev, C * (n + 1) * refq.EPS * max(refq.fro(Xp), 1e-300) * max(1.0, float(np.max(dml if T is Lm else dmu)) / float(np.min(dml if T is Lm else dmu))) + 1e-300,
                          site=name + ":columns_independent:" + lab)
            except Exception as e:
                ctx.check(clause, False, site=name + ":columns_independent:" + lab, detail={"exception": repr(e)})
    ctx.hit("rhs:zero_structured")
    # component-form back substitution (documented to overwrite b: always on copies)
    Tc, Bc = refq.fa(Um), refq.fa(B)
    tags = [f"rhs={k}"] + (["multi_rhs"] if k > 1 else []) + (["small_diag"] if min(dmu) < 1e-3 else [])
    try:
        r = U.UtriangleQsparse(*[Tc[..., t].copy() for t in range(4)], *[Bc[..., t].copy() for t in range(4)])
        X = refq.qa(np.stack([np.asarray(x, dtype=float) for x in r], axis=-1))
        _bw(ctx, "utriangle_backward", "UtriangleQsparse", Um, X, B, n, tags=tags)
    except Exception as e:
        ctx.check("utriangle_backward", False, site="UtriangleQsparse", tags=tags, detail={"exception": repr(e)[:200]})
    # the optional tol argument (absolute threshold on the diagonal MODULUS that only serves to detect zero pivots): any value well
    # below the smallest diagonal modulus - passed positionally, by keyword, as Python or numpy float - gives the same solve
    dmin = float(min(dmu))
    for tl, how in ((1e-14, "keyword"), (dmin * 1e-2, "keyword"), (dmin * 1e-3, "positional"), (np.float64(dmin * 1e-2), "keyword"), (0.0, "keyword")):
        try:
            comps_ = [Tc[..., t].copy() for t in range(4)] + [Bc[..., t].copy() for t in range(4)]
            with repo.quiet():
                r = U.UtriangleQsparse(*comps_, tl) if how == "positional" else U.UtriangleQsparse(*comps_, tol=tl)
            X = refq.qa(np.stack([np.asarray(x, dtype=float) for x in r], axis=-1))
            _bw(ctx, "utriangle_backward", "UtriangleQsparse:explicit_tol", Um, X, B, n, tags=tags + ["tol_" + how])
        except Exception as e:
            ctx.check("utriangle_backward", False, site="UtriangleQsparse:explicit_tol", tags=tags, detail={"exception": repr(e)[:200], "tol": float(tl)})
    ctx.hit("callform:explicit_tol")
    if spec["idx"] % 25 == 0:
        ctx.sample({"n": n, "nrhs": k, "diag_moduli_upper": dmu})


def _inv(spec, ctx, R):
    U = R.utils
    rng = gen.rng_for(spec["seed"], "c16inv")
    for rep in range(200):
        mod = 10.0 ** rng.uniform(-6, 6) if rep >= 13 else [1e-6, 1e-5, 1e-4, 1e-3, 1e-2, 0.1, 1, 10, 1e2, 1e3, 1e4, 1e5, 1e6][rep]
        v = rng.standard_normal(4)
        if rep % 5 == 0:
            v[int(rng.integers(0, 4))] = 0.0
        v = v / np.linalg.norm(v) * mod
        q = np.quaternion(*v)
        ctx.distinct("inv", v)
        inv = U.dotinvQsparse(float(v[0]), float(v[1]), float(v[2]), float(v[3]))
        ref = refq.fa(np.array([1.0 / q]))[0]
        tags = ["small_modulus"] if mod < 1e-3 else []
        ctx.check("dotinv_is_inverse", float(np.abs(np.array(inv, dtype=float) - ref).max()), 16 * refq.EPS / mod, site="dotinvQsparse",
                  tags=tags, detail={"modulus": mod})
        # array form
        arr = [np.array([x, 2 * x]) for x in v]
        inva = U.dotinvQsparse(*arr)
        ctx.check("dotinv_is_inverse", float(np.abs(np.array([x[0] for x in inva]) - ref).max()), 16 * refq.EPS / mod,
                  site="dotinvQsparse:array", tags=tags, detail={"modulus": mod})
        r = U.absQsparse(float(v[0]), float(v[1]), float(v[2]), float(v[3]))
        ctx.check("absq_is_modulus", abs(float(r[0]) - abs(q)), 8 * refq.EPS * abs(q), site="absQsparse")
    ctx.sample({"moduli": "log-uniform 1e-6..1e6, 200 quaternions"})
