"""C14 No hidden state, no argument mutation, reproducibility, import styles (DESIGN.md section 7, C14)."""
from __future__ import annotations

import copy
import itertools
import json
import os
import subprocess
import sys

import numpy as np

from .. import battery, gen, repo
from ..oracle import refq

ID = "C14"
LEVEL = "exploration"
EXHAUSTIVE = True
EXHAUSTIVE_NOTE = ("(a) every call history of length <= 3 over the problem pool is enumerated per solver configuration (all length-3 sequences; "
                   "each of their prefixes is a history of length 1 or 2); the public-function battery and the layouts are fixed lists")
RULE = ("(a) history enumeration: for each solver class x configuration (NewtonSchulz x2, HigherOrder, QGMRES {max_iter None / 3, none / "
        "left_lu}, RandomizedSketchProject {block 2 qr, block 16 spd}, Hybrid, CGNE {rank 0, 1, 2 (the sketch only matters from rank 2 on), rank 3 with constructor seed}, DeepLinear) one object is reused for "
        "EVERY sequence of 3 problems drawn from a pool of 4 (quick) / 5 (thorough) problems of different sizes, shapes and ranks; "
        "np.random.seed(S) before every call; the digest of call k (solution and all non-timing info fields) is compared with the table "
        "measured on fresh objects, and the object's __dict__ is digested before/after every call. (b) argument immutability: 84 public "
        "calls over utils, solver, decomp.*, tensor, qslst, data_gen in 5 memory layouts incl. read-only (a write attempt raises). "
        "(c) seed functionality: every RNG-drawing routine twice under the same seed (equal) and under a different seed (must differ); "
        "repeated deterministic calls repeat. (d) import styles: the battery is executed in two fresh subprocesses (import quatica vs flat "
        "modules) and the result digests are compared bit-for-bit. distinct = (configuration, history) / (call, layout); non-trivial = "
        "history with at least two different problems")
ASSUMPTIONS = ["bitwise digests (SHA-1 of array bytes); wall-clock fields (iteration_times, total_time, the third return value of the third-order solver) are excluded",
               "documented in-place kernels (UtriangleQsparse 'overwrites input b', Hess_QR_ggivens) are called on copies by their callers and are not in the battery"]
SHARDS = {"quick": 12, "thorough": 16}
TIMEOUT = {"quick": 900, "thorough": 3600}
DECIDING = ["history:call_equals_fresh", "history:config_unchanged", "history:args_unchanged", "immut:args_unchanged", "immut:layout_accepted", "repeat:same_arguments_same_result", "repeat:after_inplace_update_equals_fresh",
            "seed:same_seed_same_result", "seed:different_seed_different_result", "repeat:deterministic",
            "styles:identical", "styles:all_calls_ran", "concurrent:equals_sequential"]
MUST_REACH = ["long_history:disturbing_call_raised:BAD_SHAPE", "long_history:disturbing_call_returned:BIG", "structure:decoupled", "structure:zero", "size_variant:1", "size_variant:2", "history:mixed_sizes", "history:fresh_table_from_fresh_processes", "styles:compared", "layout:readonly", "layout:strided"]

# ---- (a) histories ---------------------------------------------------------------------------


def _pool(kind, npool):
    """Problems of different sizes / shapes / ranks (fixed seed: the pool is part of the enumeration)."""
    rng = np.random.default_rng(4242)
    P = []
    if kind == "pinv_any":
        shapes = [(3, 2, 2), (2, 4, 2), (3, 2, 1), (3, 3, 3), (5, 3, 2)]
        for (m, n, r) in shapes[:npool]:
            P.append((refq.matmul(refq.randq(rng, m, r), refq.randq(rng, r, n)),))
    elif kind == "pinv_tall":
        shapes = [(3, 2), (5, 3), (3, 2), (4, 4), (2, 1)]
        for (m, n) in shapes[:npool]:
            P.append((refq.randq(rng, m, n),))
    elif kind == "linsys":
        for n in [2, 5, 2, 4, 3][:npool]:
            A = refq.randq(rng, n, n) + 2.0 * refq.eye(n)
            P.append((A, refq.randq(rng, n, 1)))
    elif kind == "deep":
        for (ns, d, h) in [(3, 2, 2), (4, 3, 2), (3, 2, 2), (5, 2, 3), (3, 3, 3)][:npool]:
            P.append((refq.randq(rng, ns, d), [d, h, ns]))
    return P


def _configs(R):
    S = R.solver
    return [
        ("NewtonSchulz[gamma=.5]", lambda: S.NewtonSchulzPseudoinverse(gamma=0.5, max_iter=6, tol=1e-9), "compute", "pinv_any"),
        ("NewtonSchulz[gamma=1,cov_only]", lambda: S.NewtonSchulzPseudoinverse(gamma=1.0, max_iter=5, tol=1e-9, compute_residuals=False), "compute", "pinv_any"),
        ("HigherOrderNS", lambda: S.HigherOrderNewtonSchulzPseudoinverse(max_iter=4), "compute", "pinv_any"),
        ("QGMRES[max_iter=None]", lambda: S.QGMRESSolver(tol=1e-10), "solve", "linsys"),
        ("QGMRES[max_iter=3]", lambda: S.QGMRESSolver(tol=1e-10, max_iter=3), "solve", "linsys"),
        ("QGMRES[left_lu]", lambda: S.QGMRESSolver(tol=1e-10, preconditioner="left_lu"), "solve", "linsys"),
        ("RSP[block=2,qr]", lambda: S.RandomizedSketchProjectPseudoinverse(block_size=2, max_iter=6, tol=1e-9), "compute", "pinv_tall"),
        ("RSP[block=16,spd]", lambda: S.RandomizedSketchProjectPseudoinverse(block_size=16, max_iter=5, tol=1e-9, column_solver="spd"), "compute", "pinv_tall"),
        ("RSP[block=16,any_shape]", lambda: S.RandomizedSketchProjectPseudoinverse(block_size=16, max_iter=4, tol=1e-9), "compute", "pinv_any_fullrank"),
        ("Hybrid[r=2,p=2]", lambda: S.HybridRSPNewtonSchulz(r=1, p=2, T=2, max_iter=4, tol=1e-9), "compute", "pinv_tall"),
        ("CGNE[rank=0]", lambda: S.CGNEQSolver(max_iter=5, tol=1e-12), "compute", "pinv_tall"),
        ("CGNE[rank=1]", lambda: S.CGNEQSolver(max_iter=4, tol=1e-12, preconditioner_rank=1), "compute", "pinv_tall"),
        ("CGNE[rank=2]", lambda: S.CGNEQSolver(max_iter=4, tol=1e-12, preconditioner_rank=2), "compute", "pinv_tall"),
        ("CGNE[rank=3,seed=7]", lambda: S.CGNEQSolver(max_iter=3, tol=1e-12, preconditioner_rank=3, seed=7), "compute", "pinv_tall"),
        ("DeepLinear", lambda: S.DeepLinearNewtonSchulz(max_iter=2, tol=1e-6), "compute", "deep"),
        # non-default options TOGETHER WITH structured problems of realistic block sizes
        ("RSP[block=10,spd]:structured", lambda: S.RandomizedSketchProjectPseudoinverse(block_size=10, max_iter=6, tol=1e-9, column_solver="spd"), "compute", "pinv_tall_structured"),
        ("RSP[block=16,spd]:structured", lambda: S.RandomizedSketchProjectPseudoinverse(block_size=16, max_iter=6, tol=1e-9, column_solver="spd"), "compute", "pinv_tall_structured"),
        ("RSP[block=9,qr]:structured", lambda: S.RandomizedSketchProjectPseudoinverse(block_size=9, max_iter=6, tol=1e-9), "compute", "pinv_tall_structured"),
        ("Hybrid[r=16,spd]:structured", lambda: S.HybridRSPNewtonSchulz(r=16, p=2, T=2, max_iter=4, tol=1e-9, column_solver="spd"), "compute", "pinv_tall_structured"),
        ("CGNE[rank=4]:structured", lambda: S.CGNEQSolver(max_iter=6, tol=1e-12, preconditioner_rank=4), "compute", "pinv_tall_structured"),
        ("NewtonSchulz[gamma=1]:structured", lambda: S.NewtonSchulzPseudoinverse(gamma=1.0, max_iter=5, tol=1e-9), "compute", "pinv_tall_structured"),
        ("QGMRES[left_lu]:structured", lambda: S.QGMRESSolver(tol=1e-10, preconditioner="left_lu"), "solve", "linsys_structured"),
        ("QGMRES[none]:structured", lambda: S.QGMRESSolver(tol=1e-10), "solve", "linsys_structured"),
        # the variant methods called DIRECTLY (compute() wraps them and restores what it touched): row variant on wide, column variant on tall
        ("RSP[block=6]:variant_methods", lambda: S.RandomizedSketchProjectPseudoinverse(block_size=6, max_iter=5, tol=1e-9), "auto_variant", "pinv_any_fullrank"),
        ("RSP[block=3,spd]:variant_methods", lambda: S.RandomizedSketchProjectPseudoinverse(block_size=3, max_iter=5, tol=1e-9, column_solver="spd"), "auto_variant", "pinv_any_fullrank"),
    ]


def _pool_for(kind, npool):
    if kind == "pinv_tall_structured":
        # tall / square full-column-rank problems with exact structure and more than 8 columns (blocks of 10..16 columns are then real blocks):
        # an exactly zero row, a zero last row, a diagonal matrix, an upper-trapezoidal one, next to a generic problem of the same size
        rng = np.random.default_rng(31337)
        P = []
        A = refq.randq(rng, 12, 10); A[1, :] = np.quaternion(0, 0, 0, 0); P.append((A,))
        A = refq.randq(rng, 20, 16); A[3, :] = np.quaternion(0, 0, 0, 0); P.append((A,))
        P.append((refq.randq(rng, 12, 10),))
        A = refq.randq(rng, 17, 16); A[16, :] = np.quaternion(0, 0, 0, 0); P.append((A,))
        P.append((refq.diagq(np.linspace(3.0, 1.0, 9), 11, 9),))
        return P[:npool]
    if kind == "linsys_structured":
        # triangular / diagonal / identity-plus-one-entry systems and right-hand sides with exact zeros (unit vectors, leading zeros)
        rng = np.random.default_rng(4711)
        P = []
        n = 6
        c = refq.fa(refq.randq(rng, n, n)).copy() * np.triu(np.ones((n, n)))[..., None]
        A = refq.qa(c) + 3.0 * refq.eye(n)
        e = refq.zeros(n, 1); e[n - 1, 0] = np.quaternion(1, 0, 0, 0)
        P.append((A, e))
        A2 = refq.randq(rng, 5, 5) + 3.0 * refq.eye(5)
        b2 = refq.randq(rng, 5, 1); b2[0, 0] = np.quaternion(0, 0, 0, 0); b2[1, 0] = np.quaternion(0, 0, 0, 0)
        P.append((A2, b2))
        P.append((refq.diagq(np.linspace(2.0, 1.0, 4), 4, 4) * np.quaternion(0.6, 0.0, 0.8, 0.0), refq.randq(rng, 4, 1)))
        e1 = refq.zeros(n, 1); e1[0, 0] = np.quaternion(0, 1, 0, 0)
        P.append((refq.qa(np.transpose(c, (1, 0, 2)).copy()) + 3.0 * refq.eye(n), e1))
        P.append((A2.copy(), refq.zeros(5, 1)))
        return P[:npool]
    if kind == "pinv_any_fullrank":
        rng = np.random.default_rng(777)
        return [(refq.randq(rng, m, n),) for (m, n) in [(3, 2), (2, 4), (3, 2), (5, 3), (4, 4)][:npool]]
    return _pool(kind, npool)


def _big_problem(kind):
    rng = np.random.default_rng(99)
    if kind == "linsys":
        A = refq.randq(rng, 11, 11) + 3.0 * refq.eye(11)
        return (A, refq.randq(rng, 11, 1))
    if kind == "deep":
        return (refq.randq(rng, 9, 4), [4, 3, 9])
    if kind == "pinv_any":
        return (refq.randq(rng, 9, 12),)
    return (refq.randq(rng, 13, 9),)


def _bad_problem(kind, tok, good):
    """Arguments outside the routine's domain (most of them raise; whatever happens, later calls must not be affected)."""
    rng = np.random.default_rng(7)
    if tok == "BAD_NONE":
        return tuple(None for _ in good)
    if tok == "BAD_TYPE":
        return tuple((np.asarray(refq.fa(a))[..., 0].copy() if isinstance(a, np.ndarray) else a) for a in good)     # real float arrays
    # BAD_SHAPE
    if kind == "linsys":
        A = refq.randq(rng, 3, 3) + 2.0 * refq.eye(3)
        return (A, refq.randq(rng, 5, 1))                      # right-hand side of the wrong length
    if kind == "deep":
        return (refq.randq(rng, 3, 2), [5, 2, 3])              # layer sizes that do not match the data
    return (refq.randq(rng, 4, 1)[:, 0],)                      # 1-D array


def _strip(name, res):
    """Result with wall-clock parts removed (digest input)."""
    if name == "HigherOrderNS" and isinstance(res, tuple) and len(res) == 3:
        return res[:2]
    return res


def _state_digest(obj):
    d = {}
    for k, v in vars(obj).items():
        if hasattr(v, "__dict__") and not isinstance(v, np.ndarray):
            d[k] = _state_digest(v)
        else:
            d[k] = battery.result_digest(v)
    return d


def cases(tier, seed):
    out = []
    npool = 4 if tier == "quick" else 5
    ncfg = 25
    for ci in range(ncfg):
        seqs = list(itertools.product(range(npool), repeat=3))
        out.append({"kind": "history", "cls": "history", "cfg": ci, "npool": npool, "seqs": [list(s) for s in seqs], "seed": seed,
                    "nlong": 12 if tier == "quick" else 60})
    for lay in gen.LAYOUTS:
        for size in (None, 1, 2, 3, 5):
            out.append({"kind": "immut", "cls": "immut:" + lay, "layout": lay, "size": size, "seed": seed})
    # structured inputs (decoupled leading entry, diagonal, zero, triangular, integer) drive the rarely taken paths of the routines
    for structure in ("decoupled", "diagonal", "zero", "triangular", "int", "tiny_scale", "huge_scale"):
        for size in (None, 2, 5, 6):
            for lay in ("C", "readonly"):
                out.append({"kind": "immut", "cls": "immut:structured", "layout": lay, "size": size, "structure": structure, "seed": seed})
    for size in (None, 1, 2, 5):
        out.append({"kind": "verbose", "cls": "verbose", "size": size, "seed": seed})
    for part in range(4):
        for rep in range(1 if tier == "quick" else 4):
            out.append({"kind": "concurrent", "cls": "concurrent", "part": part, "nparts": 4, "seed": seed, "rep": rep})
    out.append({"kind": "seedfun", "cls": "seedfun", "seed": seed})
    out.append({"kind": "styles", "cls": "styles", "seed": seed})
    return out


def run_case(spec, ctx, R):
    {"history": _history, "immut": _immut, "seedfun": _seedfun, "styles": _styles, "verbose": _verbose, "concurrent": _concurrent}[spec["kind"]](spec, ctx, R)


def _concurrent(spec, ctx, R):
    """The DETERMINISTIC entry points (no random numbers: products, norms, embeddings, QR / LU / SVD / Hessenberg / tridiagonal / Schur / eigen
    routines, triangular solves) called from four threads at once, each thread on its own inputs: every call returns what the same call
    returns when nothing else is running.  numpy releases the interpreter lock inside LAPACK / BLAS and the routines have long Python loops,
    so calls do interleave; a routine that parks intermediate data in module-level or class-level storage mixes the data of two callers.
    (Routines that draw from the global generator are excluded: their stream is shared by design and C14 states them as functions of the
    global seed, which only makes sense for one caller at a time.)"""
    import threading
    ents = [(name, roles, call) for (name, roles, call, seed) in battery.entries()
            if seed is None and not any(t in name for t in ("power_iteration", "rand", "rsp", "RSP", "Hybrid", "CGNE", "pass_eff", "NewtonSchulz", "QGMRES", "DeepLinear"))]
    ents = ents[spec["part"]::spec["nparts"]]
    variants = [battery.make_inputs(size=sz) for sz in (None, 3, 5, 6)]
    for name, roles, call in ents:
        seq = []
        for I in variants:
            try:
                with repo.quiet():
                    seq.append(("ok", battery.result_digest(call(R, *[I[r].copy() for r in roles]))))
            except Exception as e:
                seq.append(("raise", type(e).__name__))
        if all(v[0] == "raise" for v in seq):
            continue
        got = [[] for _ in variants]
        barrier = threading.Barrier(len(variants))

        def worker(t):
            I = variants[t]
            barrier.wait()
            for rep in range(6):
                try:
                    got[t].append(("ok", battery.result_digest(call(R, *[I[r].copy() for r in roles]))))
                except Exception as e:
                    got[t].append(("raise", type(e).__name__))
        import io, contextlib
        with contextlib.redirect_stdout(io.StringIO()):
            ths = [threading.Thread(target=worker, args=(t,)) for t in range(len(variants))]
            for th in ths:
                th.start()
            for th in ths:
                th.join()
        ok = all(all(g == seq[t] for g in got[t]) for t in range(len(variants)))
        ctx.distinct("concurrent", name)
        ctx.hit("concurrent:four_threads")
        ctx.check("concurrent:equals_sequential", ok, site=name,
                  detail={"threads": len(variants), "calls_per_thread": 6, "mismatching_calls": sum(g != seq[t] for t in range(len(variants)) for g in got[t])})


def _verbose(spec, ctx, R):
    """verbose=True only prints: every routine with such a flag returns what it returns with verbose=False (same seed, same arguments)."""
    S, U, D, SC = R.solver, R.utils, R.decomp, R.schur
    I = battery.make_inputs(size=spec.get("size"))
    A43, A33, H3, b3 = I["A43"], I["A33"], I["H3"], I["b3"]
    calls = {
        "NewtonSchulz": lambda v: S.NewtonSchulzPseudoinverse(max_iter=6, tol=1e-9, verbose=v).compute(A43.copy()),
        "NewtonSchulz[cov_only]": lambda v: S.NewtonSchulzPseudoinverse(max_iter=6, tol=1e-9, compute_residuals=False, verbose=v).compute(A43.copy()),
        "HigherOrderNS": lambda v: S.HigherOrderNewtonSchulzPseudoinverse(max_iter=4, verbose=v).compute(A43.copy())[:2],
        "QGMRES": lambda v: S.QGMRESSolver(tol=1e-10, verbose=v).solve(A33.copy() + 2.0 * refq.eye(A33.shape[0]), b3.copy()),
        "QGMRES[left_lu]": lambda v: S.QGMRESSolver(tol=1e-10, verbose=v, preconditioner="left_lu").solve(A33.copy() + 2.0 * refq.eye(A33.shape[0]), b3.copy()),
        "RSP": lambda v: S.RandomizedSketchProjectPseudoinverse(block_size=2, max_iter=6, tol=1e-9, verbose=v).compute(A43.copy()),
        "RSP[spd]": lambda v: S.RandomizedSketchProjectPseudoinverse(block_size=2, max_iter=6, tol=1e-9, verbose=v, column_solver="spd").compute(A43.copy()),
        "RSP[row]": lambda v: S.RandomizedSketchProjectPseudoinverse(block_size=2, max_iter=6, tol=1e-9, verbose=v).compute(refq.herm(A43)),
        "Hybrid": lambda v: S.HybridRSPNewtonSchulz(r=1, p=2, T=2, max_iter=4, tol=1e-9, verbose=v).compute(A43.copy()),
        "CGNE": lambda v: S.CGNEQSolver(max_iter=5, tol=1e-12, verbose=v).compute(A43.copy()),
        "CGNE[rank=2]": lambda v: S.CGNEQSolver(max_iter=4, tol=1e-12, preconditioner_rank=2, verbose=v).compute(A43.copy()),
        "power_iteration": lambda v: U.power_iteration(H3.copy(), max_iterations=30, return_eigenvalue=True, verbose=v),
        "quaternion_eigendecomposition": lambda v: D.quaternion_eigendecomposition(H3.copy(), verbose=v),
        "quaternion_eigenvalues": lambda v: D.quaternion_eigenvalues(H3.copy(), verbose=v),
        "quaternion_eigenvectors": lambda v: D.quaternion_eigenvectors(H3.copy(), verbose=v),
    }
    for fn, kw in (("quaternion_schur", {}), ("quaternion_schur_pure", {}), ("quaternion_schur_pure_implicit", {}),
                   ("quaternion_schur_unified", {"variant": "aed"}), ("quaternion_schur_unified", {"variant": "rayleigh"}),
                   ("quaternion_schur_experimental", {})):
        calls[fn + str(sorted(kw.items()))] = (lambda v, fn=fn, kw=kw: getattr(SC, fn)(A33.copy(), max_iter=6, verbose=v, **kw))
    for name, f in calls.items():
        outs = []
        for v in (False, True, np.bool_(True), 1):
            np.random.seed(4321 + spec["seed"])
            try:
                with repo.quiet():
                    outs.append(("ok", battery.result_digest(_strip("HigherOrderNS" if name == "HigherOrderNS" else "", f(v)))))
            except Exception as e:
                outs.append(("raise", type(e).__name__))
        if outs[0][0] == "raise":
            continue                    # not defined for this size variant
        ctx.distinct("verbose", name, spec.get("size"))
        ctx.hit("callform:verbose_true")
        ctx.check("verbose:same_result", outs[1] == outs[0] and outs[2] == outs[0] and outs[3] == outs[0], site=name,
                  detail={"verbose_false": outs[0], "verbose_true": outs[1], "numpy_bool": outs[2], "int_1": outs[3], "size": spec.get("size")})


_POISON = [0]


def poison_heap():
    """Fill freshly freed heap blocks of the sizes the routines work with by a value that alternates from call to call (1e300, -7.25, NaN): a routine
    that returns memory it never wrote (np.empty handed out as a result) then gives DIFFERENT bits on repeated calls instead of the zeros a
    fresh process happens to see."""
    _POISON[0] += 1
    val = (1e300, -7.25, float("nan"))[_POISON[0] % 3]
    keep = []
    for i in range(1, 21):
        for j in range(i, 21):
            for w in (1, 4):
                a = np.empty(i * j * w)
                a.fill(val)
                keep.append(a)
    del keep


def _call(obj, method, prob, S):
    args = [copy.deepcopy(a) for a in prob]
    before = [battery.arg_digest(a) for a in args]
    poison_heap()
    np.random.seed(S)
    if method == "auto_variant":
        method = "compute_row_variant" if args[0].shape[0] < args[0].shape[1] else "compute_column_variant"
    res = getattr(obj, method)(*args)
    return res, [battery.arg_digest(a) for a in args] == before


def fresh_one(R, cfg_index, npool, pi, S):
    """Result digest of problem pi on a fresh object (called in a fresh process: clean module-level state)."""
    name, factory, method, pkind = _configs(R)[cfg_index]
    pool = _pool_for(pkind, npool)
    try:
        with repo.quiet():
            res, _ = _call(factory(), method, pool[pi], S)
        return ["ok", battery.result_digest(_strip(name, res))]
    except Exception as e:
        return ["raise", type(e).__name__]


def _fresh_table(cfg_index, npool, S0, n):
    """One fresh interpreter per (configuration, problem): neither object state nor module-level state is shared."""
    from concurrent.futures import ThreadPoolExecutor
    here = os.path.dirname(os.path.dirname(os.path.dirname(os.path.abspath(__file__))))
    env = dict(os.environ)
    env["PYTHONPATH"] = here + os.pathsep + os.path.join(here, ".deps")

    def one(pi):
        p = subprocess.run([sys.executable, "-m", "vq.monitors.c14", str(cfg_index), str(npool), str(pi), str(S0 + pi)], cwd=here, env=env,
                           capture_output=True, text=True, timeout=300)
        return tuple(json.loads(p.stdout.strip().splitlines()[-1]))
    try:
        with ThreadPoolExecutor(max_workers=3) as ex:
            vals = list(ex.map(one, range(n)))
        return dict(enumerate(vals))
    except Exception:
        return None


def _history(spec, ctx, R):
    name, factory, method, pkind = _configs(R)[spec["cfg"]]
    pool = _pool_for(pkind, spec["npool"])
    S0 = 1000 + spec["seed"]
    fresh = _fresh_table(spec["cfg"], spec["npool"], S0, len(pool))
    if fresh is None:
        ctx.note(f"{name}: fresh-process table could not be computed; configuration not judged")
        return
    ctx.hit("history:fresh_table_from_fresh_processes")
    if all(v[0] == "raise" for v in fresh.values()):
        ctx.note(f"{name}: every fresh call raised ({fresh}); configuration not judged")
        return
    for seq in spec["seqs"]:
        obj = factory()
        cfg0 = _state_digest(obj)
        if len(set(seq)) >= 2:
            ctx.hit("history:mixed_sizes")
        ctx.distinct(name, seq, nontrivial=len(set(seq)) >= 2)
        for k, pi in enumerate(seq):
            try:
                res, args_same = _call(obj, method, pool[pi], S0 + pi)
                got = ("ok", battery.result_digest(_strip(name, res)))
            except Exception as e:
                got, args_same = ("raise", type(e).__name__), True
            det = {"config": name, "history": seq, "call_index": k, "problem": pi,
                   "problem_shape": list(getattr(pool[pi][0], "shape", ())), "previous_shapes": [list(pool[q][0].shape) for q in seq[:k]]}
            tags = []
            if k > 0:
                tags.append("after_other_size" if any(pool[q][0].shape != pool[pi][0].shape for q in seq[:k]) else "after_same_size")
            ctx.check("history:call_equals_fresh", got == fresh[pi], site=name, tags=tags, detail={**det, "got": got, "fresh": fresh[pi]})
            ctx.check("history:args_unchanged", args_same, site=name, detail=det)
            cfg1 = _state_digest(obj)
            changed = sorted(k2 for k2 in set(cfg0) | set(cfg1) if cfg0.get(k2) != cfg1.get(k2))
            ctx.check("history:config_unchanged", not changed, site=name, tags=["attrs:" + ",".join(changed)] if changed else [],
                      detail={**det, "changed_attributes": changed})
    # ---- longer histories with disturbing calls in between: calls that raise (arguments outside the domain), a much larger problem, the
    # same problem many times; every in-pool call is still judged against the fresh-process table
    rng = gen.rng_for(spec["seed"], "c14long", spec["cfg"])
    big = _big_problem(pkind)
    for h in range(spec.get("nlong", 0)):
        L = int(rng.integers(4, 8))
        seq = [int(rng.integers(0, len(pool))) if rng.random() < 0.6 else str(rng.choice(["BAD_SHAPE", "BAD_TYPE", "BIG", "BAD_NONE"])) for _ in range(L)]
        if not any(isinstance(t, str) for t in seq):
            seq[int(rng.integers(0, L - 1))] = "BAD_SHAPE"
        seq.append(int(rng.integers(0, len(pool))))
        obj = factory()
        cfg0 = _state_digest(obj)
        ctx.distinct(name, "long", seq)
        raised_before = False
        for k, tok in enumerate(seq):
            if isinstance(tok, str):
                prob = big if tok == "BIG" else _bad_problem(pkind, tok, pool[0])
                try:
                    with np.errstate(all="ignore"), repo.quiet():
                        _call(obj, method, prob, S0)
                    ctx.hit("long_history:disturbing_call_returned:" + tok)
                except Exception as e:
                    raised_before = True
                    ctx.hit("long_history:disturbing_call_raised:" + tok)
                continue
            pi = tok
            try:
                res, args_same = _call(obj, method, pool[pi], S0 + pi)
                got = ("ok", battery.result_digest(_strip(name, res)))
            except Exception as e:
                got = ("raise", type(e).__name__)
            tags = ["long_history"] + (["after_raising_call"] if raised_before else [])
            ctx.check("history:call_equals_fresh", got == fresh[pi], site=name, tags=tags,
                      detail={"config": name, "history": [str(t) for t in seq], "call_index": k, "problem": pi, "got": got, "fresh": fresh[pi]})
            cfg1 = _state_digest(obj)
            changed = sorted(k2 for k2 in set(cfg0) | set(cfg1) if cfg0.get(k2) != cfg1.get(k2))
            ctx.check("history:config_unchanged", not changed, site=name, tags=["long_history"] + (["attrs:" + ",".join(changed)] if changed else []),
                      detail={"history": [str(t) for t in seq], "changed_attributes": changed})
    if spec["seqs"]:
        ctx.sample({"config": name, "pool_shapes": [list(p[0].shape) for p in pool], "histories": "every sequence of 3 problems",
                    "fresh_table": {str(k): v for k, v in fresh.items()}})


# ---- (b) immutability / layouts ----------------------------------------------------------------

def _immut(spec, ctx, R):
    lay, size, structure = spec["layout"], spec.get("size"), spec.get("structure")
    ctx.hit("layout:" + lay)
    ctx.hit(f"size_variant:{size}")
    if structure:
        ctx.hit("structure:" + structure)
    base = battery.run_all(R, layout=None, size=size, structure=structure)
    got = battery.run_all(R, layout=lay, size=size, repeat=True, structure=structure, alias=(lay == "C"))
    st = (f"size={size}" if size is not None else "size=default") + (f",{structure}" if structure else "")
    for name, rec in got.items():
        b = base[name]
        if b["error"] is not None:
            # the call is not defined for this size / scale variant (e.g. a fixed truncation rank, overflow): only the arguments are judged
            ctx.check("immut:args_unchanged", not rec["args_changed"], site=name, tags=[lay, st, "call_raised"])
            continue
        ctx.distinct(name, lay, size, structure)
        ctx.check("immut:args_unchanged", not rec["args_changed"], site=name, tags=[lay, st])
        wr = rec["error"] is not None and ("read-only" in rec["error"] or "readonly" in rec["error"] or "WRITEABLE" in rec["error"])
        ctx.check("immut:layout_accepted", rec["error"] is None, site=name, tags=[lay, st] + (["write_attempt_on_readonly_argument"] if wr else []),
                  detail={"layout": lay, "size": size, "error": rec["error"]})
        if rec["error"] is None and "result_retained" in rec:
            ctx.check("repeat:earlier_result_unchanged_by_later_call", bool(rec["result_retained"]), site=name, tags=[lay, st])
        if rec["error"] is None:
            ctx.check("repeat:same_arguments_same_result", rec.get("repeat_digest") == rec["digest"], site=name, tags=[lay, st],
                      detail={"layout": lay, "size": size})
            if "inplace_same_object" in rec and lay == "C":      # same (contiguous) memory order on both sides: bitwise comparable
                ctx.check("repeat:after_inplace_update_equals_fresh", rec["inplace_same_object"] == rec["inplace_fresh_copy"], site=name,
                          tags=[lay, st], detail={"layout": lay, "size": size})
        for pr, a in (rec.get("alias") or {}).items():
            if "error" in a:
                ctx.check("alias:same_object_equals_copy", False, site=name, tags=[st, "exception_only_when_aliased"], detail={"pair": pr, "error": a["error"]})
                continue
            ctx.hit("alias:pairs_evaluated")
            ctx.check("alias:same_object_equals_copy", a["same_object"] == a["copy"], site=name, tags=[st], detail={"argument_pair": pr})
            ctx.check("alias:view_equals_copy", a["view"] == a["copy"], site=name, tags=[st], detail={"argument_pair": pr})
        for pr, a in (rec.get("view_history") or {}).items():
            if "error" in a:
                continue
            ctx.hit("history:view_of_previous_argument")
            ctx.check("history:view_of_previous_equals_fresh_buffer", a["view_of_previous"] == a["fresh_buffer"], site=name, tags=[st],
                      detail={"argument:view": pr, **a})
    if lay == "C" and size is None:
        ctx.sample({"battery_entries": sorted(got)[:12] + ["..."], "n_entries": len(got), "layouts": gen.LAYOUTS, "size_variants": [None, 1, 2, 3, 5]})


# ---- (c) seeds ---------------------------------------------------------------------------------

def _seedfun(spec, ctx, R):
    I = battery.make_inputs()
    ents = {e[0]: e for e in battery.entries()}
    extra_rng = {"solver.RSP.compute", "solver.RSP.row", "solver.RSP.spd", "solver.Hybrid", "solver.CGNE.prec"}
    for name, (nm, roles, call, seed) in ents.items():
        args = lambda: [I[r].copy() for r in roles]

        def run(sd):
            np.random.seed(sd)
            with repo.quiet():
                return battery.result_digest(call(R, *args()))
        try:
            a1, a2 = run(101 + spec["seed"]), run(101 + spec["seed"])
        except Exception as e:
            ctx.note(f"{name} raised in seed check: {e!r}")
            continue
        ctx.distinct(name, "seed")
        if name in battery.RNG_ENTRIES:
            ctx.check("seed:same_seed_same_result", a1 == a2, site=name)
            b = run(202 + spec["seed"])
            ctx.check("seed:different_seed_different_result", a1 != b, site=name)
        elif name in extra_rng:
            # these take their seed through the constructor (np.random.seed(seed) inside): repeatable
            ctx.check("seed:same_seed_same_result", a1 == a2, site=name)
        else:
            b = run(202 + spec["seed"])
            ctx.check("repeat:deterministic", a1 == a2 == b, site=name)
    # constructor seeds select the random stream
    S = R.solver
    A = I["A43"]

    def rsp(seed):
        with repo.quiet():
            return battery.result_digest(S.RandomizedSketchProjectPseudoinverse(block_size=2, max_iter=5, seed=seed).compute(A.copy()))
    ctx.check("seed:same_seed_same_result", rsp(3) == rsp(3), site="RSP(seed=)")
    ctx.check("seed:different_seed_different_result", rsp(3) != rsp(4), site="RSP(seed=)")


# ---- (d) import styles --------------------------------------------------------------------------

def _styles(spec, ctx, R):
    here = os.path.dirname(os.path.dirname(os.path.dirname(os.path.abspath(__file__))))
    res = {}
    for style in ("flat", "package"):
        env = dict(os.environ)
        env["PYTHONPATH"] = here + os.pathsep + os.path.join(here, ".deps")
        try:
            p = subprocess.run([sys.executable, "-m", "vq.battery", style], cwd=here, env=env, capture_output=True, text=True, timeout=600)
            res[style] = json.loads(p.stdout)
        except Exception as e:
            ctx.note(f"battery subprocess for style {style} failed: {e!r}")
            return
    ctx.hit("styles:compared")
    f, pk = res["flat"]["results"], res["package"]["results"]
    ctx.check("styles:all_calls_ran", set(f) == set(pk) and len(f) >= 80, site="battery", detail={"flat": len(f), "package": len(pk)})
    for name in sorted(set(f) & set(pk)):
        ctx.distinct(name, "styles")
        a, b = f[name], pk[name]
        ctx.check("styles:identical", a["digest"] == b["digest"] and (a["error"] is None) == (b["error"] is None), site=name,
                  detail={"flat": a, "package": b})
        ctx.check("styles:all_calls_ran", a["error"] is None and b["error"] is None, site=name, detail={"flat": a["error"], "package": b["error"]})
    # fresh interpreters with other hash seeds (set / dict-of-str iteration order, object ids and addresses differ): same digests
    for hs in ("1", "98765"):
        env = dict(os.environ)
        env["PYTHONPATH"] = here + os.pathsep + os.path.join(here, ".deps")
        env["PYTHONHASHSEED"] = hs
        try:
            p = subprocess.run([sys.executable, "-m", "vq.battery", "flat"], cwd=here, env=env, capture_output=True, text=True, timeout=600)
            other = json.loads(p.stdout)["results"]
        except Exception as e:
            ctx.note(f"battery subprocess with PYTHONHASHSEED={hs} failed: {e!r}")
            continue
        ctx.hit("process:other_hash_seed")
        for name in sorted(set(f) & set(other)):
            ctx.check("process:independent_of_hash_seed", other[name]["digest"] == f[name]["digest"], site=name, tags=["PYTHONHASHSEED=" + hs],
                      detail={"PYTHONHASHSEED=0": f[name], "other": other[name]})
    ctx.sample({"styles": ["flat", "package"], "modules_loaded_package_style": res["package"]["modules"], "calls_compared": len(f)})


if __name__ == "__main__":
    # fresh-process helper: python -m vq.monitors.c14 <cfg> <npool> <problem> <np seed>
    os.environ.setdefault("OPENBLAS_NUM_THREADS", "1")
    _R = repo.Repo("flat")
    print(json.dumps(fresh_one(_R, int(sys.argv[1]), int(sys.argv[2]), int(sys.argv[3]), int(sys.argv[4]))))
