"""C10 Schur variants (DESIGN.md section 7, C10)."""
from __future__ import annotations

import numpy as np

from .. import gen, repo
from ..oracle import embed, refq

ID = "C10"
LEVEL = "exploration"
RULE = ("every Schur entry point x variant / shift (quaternion_schur x {rayleigh, wilkinson, double}; quaternion_schur_pure x {none, "
        "rayleigh}; quaternion_schur_pure_implicit x {none, rayleigh}; quaternion_schur_unified x {none, rayleigh, implicit, aed, ds} x "
        "precompute_shifts x aed_window; quaternion_schur_experimental x {aed_windowed, francis_ds} x window) x iteration budgets "
        "(0, 1, 2, 3, 5, 10, 50, 300 quick; 0..10, 20, 50, 100, 300, 1000 thorough - budgets too small to converge included) x tol in "
        "{1e-8, 1e-10, 1e-12} on n x n inputs (1..6 quick, 1..10 thorough): generic, Hermitian with prescribed spectrum (incl. repeats), "
        "upper triangular, normal U L U^H with complex-similar L, rank-1/2, integer, diagonal, scalings 1e-3 / 1e3. Each (Q,T,diag) is "
        "judged: Q unitary, Q T Q^H = A to the deflation tolerance, and - whenever diag['converged'] - T upper triangular, and real "
        "diagonal with the oracle eigenvalues for Hermitian A. distinct = (input digest, variant, budget, tol); non-trivial = n >= 2")
ASSUMPTIONS = ["bounds: unitarity c*n*eps*(iterations+1); similarity / triangularity c*n*(tol_eff*max(1,||A||_F) + eps*(iterations+1)*||A||_F) with "
               "c = 1e3 and tol_eff the variant's deflation threshold (tol, or aed_factor*tol for aed/ds)",
               "a variant whose converged flag was never observed True in a run is reported in the evidence (flag clause inconclusive for it)"]
SHARDS = {"quick": 12, "thorough": 16}
TIMEOUT = {"quick": 900, "thorough": 5400}
DECIDING = ["shapes_finite", "Q_unitary", "similarity", "converged_implies_triangular", "converged_hermitian_real_diagonal",
            "converged_hermitian_eigenvalues", "diagnostics_wellformed"]
MUST_REACH = ["flag:converged", "flag:not_converged", "class:hermitian:converged"]

C = 1e3
CS = 30.0
EPS = refq.EPS

VARIANTS = (
    [("quaternion_schur", {"shift": s}) for s in ("rayleigh", "wilkinson", "double")]
    + [("quaternion_schur_pure", {"shift_mode": s}) for s in ("none", "rayleigh")]
    + [("quaternion_schur_pure_implicit", {"shift_mode": s}) for s in ("none", "rayleigh")]
    + [("quaternion_schur_unified", {"variant": v}) for v in ("none", "rayleigh", "implicit")]
    + [("quaternion_schur_unified", {"variant": v, "precompute_shifts": p, "aed_window": w})
       for v in ("aed", "ds") for p in (True, False) for w in (None, 3)]
    + [("quaternion_schur_experimental", {"variant": v, "window": w}) for v in ("aed_windowed", "francis_ds") for w in (2, 12)]
)

CLASSES = ["generic", "hermitian", "hermitian_repeat", "upper_tri", "normal", "rank1", "rank2", "int", "diag", "scaled_small", "scaled_big",
           "hermitian_psd", "scaled_huge", "int_big", "hermitian_big", "sparse", "sparse_hermitian",
           "hess_axis_subdiag", "tri_plus_one_subdiag", "hess_tiny_axis_subdiag", "block_upper_tri", "hollow_int"]


def vname(fn, kw):
    return fn + "[" + ",".join(f"{k}={v}" for k, v in sorted(kw.items())) + "]"


def cases(tier, seed):
    out = []
    maxn = 6 if tier == "quick" else 10
    budgets = [0, 1, 2, 3, 5, 10, 50, 300] if tier == "quick" else list(range(0, 11)) + [20, 50, 100, 300, 1000]
    nmat = 4 if tier == "quick" else 12
    idx = 0
    late = ("hess_axis_subdiag", "tri_plus_one_subdiag", "hess_tiny_axis_subdiag", "block_upper_tri", "hollow_int")     # classes added by seeding rounds 9-10
    for cls in CLASSES:
        for k in range(nmat):
            bl = budgets if (cls not in late or tier != "quick") else [0, 2, 10, 300]          # fewer budgets in the quick tier (cost)
            out.append({"kind": "matrix", "cls": cls, "idx": idx, "seed": seed, "maxn": maxn, "budgets": bl})
            idx += 1
    # size ladder: n beyond the default windows (12) and plausible panel widths (8 / 16); few budgets (cost)
    for n_ in ([13, 17] if tier == "quick" else [9, 12, 13, 14, 16, 17, 18, 20, 24, 26, 33]):
        for cls in ("generic", "hermitian") if tier == "quick" else ("generic", "hermitian", "int", "upper_tri"):
            out.append({"kind": "matrix", "cls": cls, "idx": idx, "seed": seed, "maxn": maxn, "budgets": [0, 2, 300], "n": n_})
            idx += 1
    return out


def make(rng, cls, n):
    herm = False
    eigs = None
    if cls == "generic":
        A = refq.randq(rng, n, n)
    elif cls in ("hermitian", "hermitian_repeat", "hermitian_psd"):
        e = rng.standard_normal(n) * 2.0 + np.arange(n) * 0.3
        if cls == "hermitian_repeat" and n >= 2:
            e[1] = e[0]
        if cls == "hermitian_psd":
            e = np.abs(e) + 0.2
        A, _ = refq.hermitian_with_eigs(rng, e)
        herm, eigs = True, np.sort(e)
    elif cls == "upper_tri":
        A = gen.structured(rng, "upper_tri", n, n)
    elif cls == "normal":
        # U L U^H with L diagonal of complex numbers (quaternions in span{1,i})
        c = np.zeros((n, n, 4))
        c[np.arange(n), np.arange(n), 0] = rng.standard_normal(n) * 2.0
        c[np.arange(n), np.arange(n), 1] = np.abs(rng.standard_normal(n))
        U = refq.rand_unitary(rng, n)
        A = refq.matmul(refq.matmul(U, refq.qa(c)), refq.herm(U))
    elif cls == "rank1":
        A = gen.structured(rng, "rank1", n, n)
    elif cls == "rank2":
        A = refq.matmul(refq.randq(rng, n, min(2, n)), refq.randq(rng, min(2, n), n))
    elif cls == "int":
        A = gen.entries(rng, "int", n, n)
    elif cls == "sparse":
        A = gen.entries(rng, "sparse", n, n)
    elif cls == "sparse_hermitian":
        A = gen.entries(rng, "sparse", n, n)
        A = A + refq.herm(A)
        herm = True
    elif cls in ("hess_axis_subdiag", "tri_plus_one_subdiag", "hess_tiny_axis_subdiag"):
        # already upper Hessenberg, the sub-diagonal entries purely along ONE of the four axes each (w / i / j / k, all four visited): a
        # deflation test that looks at a subset of the components sees some of these entries as zero.  tri_plus_one_subdiag: triangular but
        # for ONE sub-diagonal entry (first / middle / last position); hess_tiny: sub-diagonal entries of size 1e-5..1e-7 relative - small
        # but far above any deflation threshold the tolerance permits
        c = refq.fa(gen.structured(rng, "upper_tri", n, n)).copy()
        mag = 1.0 if cls != "hess_tiny_axis_subdiag" else float(rng.choice([1e-5, 1e-6, 1e-7]))
        pos = list(range(1, n))
        if cls == "tri_plus_one_subdiag" and n >= 2:
            pos = [[1, n - 1, max(1, n // 2)][int(rng.integers(0, 3))]]
        ax0 = int(rng.integers(0, 4))
        for t, i in enumerate(pos):
            v = np.zeros(4)
            v[(ax0 + t) % 4] = mag * float(rng.choice([-1.0, 1.0])) * (0.5 + rng.random())
            c[i, i - 1] = v
        A = refq.qa(c)
    elif cls == "block_upper_tri":
        # reducible: dense leading block, exact zero block below it (a deflation that exists before the first sweep, not at the bottom)
        c = rng.standard_normal((n, n, 4))
        p_ = max(1, n // 2)
        c[p_:, :p_] = 0.0
        A = refq.qa(c)
    elif cls == "hollow_int":
        # integer matrix with an exactly zero diagonal (adjacency-like; Hermitian half of the time): zero Rayleigh quotients / leading entries
        A = gen.entries(rng, "int", n, n)
        if rng.random() < 0.5:
            A = A + refq.herm(A)
            herm = True
        cc = refq.fa(A).copy()
        cc[np.arange(n), np.arange(n)] = 0.0
        A = refq.qa(cc)
    elif cls == "diag":
        A = gen.structured(rng, "diag", n, n)
    elif cls == "scaled_small":
        A = refq.randq(rng, n, n) * 1e-3
    elif cls == "scaled_big":
        A = refq.randq(rng, n, n) * 1e3
    elif cls == "scaled_huge":
        A = refq.randq(rng, n, n) * 1e5
    elif cls == "int_big":
        A = refq.qa(np.round(rng.standard_normal((n, n, 4)) * 3e3))
    elif cls == "hermitian_big":
        e = (rng.standard_normal(n) * 2.0 + np.arange(n) * 0.3) * 1e4
        A, _ = refq.hermitian_with_eigs(rng, e)
        herm, eigs = True, np.sort(e)
    else:
        raise ValueError(cls)
    return A, herm, eigs


def tol_eff(fn, kw, tol, n):
    if fn == "quaternion_schur_unified" and kw.get("variant") in ("aed", "ds"):
        return 3.0 * tol if n <= 20 else 8.0 * tol
    return tol


def run_case(spec, ctx, R):
    S = R.schur
    rng = gen.rng_for(spec["seed"], "c10", spec["idx"])
    cls = spec["cls"]
    n = 1 + spec["idx"] % spec["maxn"] if spec["idx"] % 2 else int(rng.integers(2, spec["maxn"] + 1))
    if "n" in spec:
        n = spec["n"]
        ctx.hit("size:ladder")
    A, herm, eigs = make(rng, cls, n)
    A = gen.vary(A, spec["idx"])
    nrm = refq.fro(A)
    lam_or = embed.eigvalsh(A) if herm else None
    if spec["idx"] % 5 == 0:
        ctx.sample({"class": cls, "n": n, "A": A, "variants": [vname(f, k) for f, k in VARIANTS][:4] + ["..."], "budgets": spec["budgets"]})
    A0 = refq.fa(A).copy()
    for vi, (fn, kw) in enumerate(VARIANTS):
        f = getattr(S, fn)
        site = vname(fn, kw)
        for bi, budget in enumerate(spec["budgets"]):
            # large budgets only for a rotating subset of variants per matrix (cost control); small budgets for all
            if budget >= 300 and (vi + spec["idx"]) % 3 != 0:
                continue
            # the caller's tolerance, also tighter than any default a variant may carry (1e-14: the bound below then sits at round-off level)
            tol = [1e-8, 1e-10, 1e-12, 1e-14][(vi + bi + spec["idx"]) % 4]
            ctx.distinct(A, site, budget, tol, nontrivial=n >= 2)
            try:
                out = f(A, max_iter=budget, tol=tol, return_diagnostics=True, **kw)
            except Exception as e:
                ctx.check("unexpected_exception", False, site=site, tags=[cls], detail={"exception": repr(e), "n": n, "budget": budget})
                continue
            ok = isinstance(out, tuple) and len(out) == 3
            if ok:
                Q, T, dg = out
                ok = Q.shape == (n, n) and T.shape == (n, n) and refq.is_finite(Q) and refq.is_finite(T)
            ctx.check("shapes_finite", ok, site=site, tags=[cls], detail={"n": n, "budget": budget})
            if not ok:
                continue
            if (vi + bi + spec["idx"]) % 4 == 0:
                # the other call forms of the same computation (two-value return with return_diagnostics omitted / False, verbose=True): what
                # they return is judged by the same clauses (unitary Q, Q T Q^H = A within the tolerance-governed bound)
                sweeps_ = budget + 1
                sb_ = CS * n * tol_eff(fn, kw, tol, n) * max(1.0, nrm) + C * n * EPS * (sweeps_ + n) * nrm + 1e-300
                for form, extra in (("plain_return", {}), ("verbose", {"verbose": True, "return_diagnostics": True}),
                                    ("diagnostics_false", {"return_diagnostics": False})):
                    try:
                        with repo.quiet():
                            o2 = f(A, max_iter=budget, tol=tol, **extra, **kw)
                    except Exception as e:
                        ctx.check("unexpected_exception", False, site=site + ":" + form, tags=[cls], detail={"exception": repr(e)[:200], "n": n, "budget": budget})
                        continue
                    ctx.hit("callform:" + form)
                    ok2 = isinstance(o2, tuple) and len(o2) == (3 if extra.get("return_diagnostics") else 2) and \
                        getattr(o2[0], "shape", None) == (n, n) and getattr(o2[1], "shape", None) == (n, n) and refq.is_finite(o2[0]) and refq.is_finite(o2[1])
                    ctx.check("shapes_finite", ok2, site=site + ":" + form, tags=[cls], detail={"n": n, "budget": budget})
                    if ok2:
                        ctx.check("Q_unitary", refq.orth_err(o2[0]), C * n * EPS * (sweeps_ + n), site=site + ":" + form, tags=[cls])
                        ctx.check("similarity", refq.fro(refq.matmul(refq.matmul(o2[0], o2[1]), refq.herm(o2[0])) - A), sb_, site=site + ":" + form, tags=[cls],
                                  detail={"n": n, "budget": budget, "tol": tol})
            wf = isinstance(dg, dict) and isinstance(dg.get("converged"), (bool, np.bool_)) and isinstance(dg.get("iterations"), list)
            ctx.check("diagnostics_wellformed", wf, site=site, tags=[cls])
            if not wf:
                continue
            iters = max(len(dg["iterations"]), int(dg.get("iterations_run") or 0))
            ctx.check("diagnostics_wellformed", iters <= budget + 1, site=site + ":iterations<=budget", tags=[cls],
                      detail={"iterations": iters, "budget": budget})
            sweeps = min(iters, budget) + 1
            te = tol_eff(fn, kw, tol, n)
            det = {"n": n, "budget": budget, "tol": tol, "iterations": iters, "converged": bool(dg["converged"]), "normA": nrm}
            ctx.check("Q_unitary", refq.orth_err(Q), C * n * EPS * (sweeps + n), site=site, tags=[cls], detail=det)
            # calibrated: worst observed ratio on the unchanged tree with constant 1e3 was 6e-4 (all variants, 5 seeds, both tiers),
            # so 30 leaves a factor ~50 of head-room while a deflation threshold that is wrong by the scale of A is far outside
            # two parts: what the deflation tolerance permits (calibrated constant CS = 30) and accumulated rounding of the sweeps (the generic
            # constant C = 1e3 of section 5: with the caller's tolerance at 1e-14 the first part vanishes and 300 non-converging sweeps of the
            # real-expansion variant reach 90 eps n sweeps ||A||, measured on the unchanged tree)
            sb = CS * n * te * max(1.0, nrm) + C * n * EPS * (sweeps + n) * nrm + 1e-300
            ctx.check("similarity", refq.fro(refq.matmul(refq.matmul(Q, T), refq.herm(Q)) - A), sb, site=site, tags=[cls], detail=det)
            if bool(dg["converged"]):
                ctx.hit("flag:converged")
                ctx.hit("converged:" + site)
                low = float((refq.absq(T) * np.tril(np.ones((n, n)), -1)).max()) if n > 1 else 0.0
                sub = float(max([abs(T[i, i - 1]) for i in range(1, n)] + [0.0]))
                tags = [cls]
                if low > sb and sub <= sb:
                    # the first sub-diagonal is clean but entries below it are not: the mechanism of finding F-C10
                    tags.append("fill_in_below_subdiagonal")
                ctx.check("converged_implies_triangular", low, sb, site=site, tags=tags, detail={**det, "max_lower": low, "max_subdiag": sub})
                if herm:
                    ctx.hit("class:hermitian:converged")
                    Tc = refq.fa(T)
                    offm = Tc * (1.0 - np.eye(n))[..., None]
                    off = float(np.sqrt(np.sum(offm ** 2)))
                    vec = float(np.max(np.abs(Tc[np.arange(n), np.arange(n), 1:])))
                    ctx.check("converged_hermitian_real_diagonal", max(off, vec), 2 * sb, site=site, tags=tags,
                              detail={**det, "offdiag": off, "diag_vector_part": vec})
                    dvals = np.sort(Tc[np.arange(n), np.arange(n), 0])
                    ctx.check("converged_hermitian_eigenvalues", float(np.max(np.abs(dvals - lam_or))), 2 * sb, site=site, tags=tags,
                              detail={**det, "diag": dvals, "oracle": lam_or})
            else:
                ctx.hit("flag:not_converged")
                ctx.hit("not_converged:" + site)
    ctx.check("input_unchanged", np.array_equal(refq.fa(A), A0), site="all_variants", tags=[cls])
