"""C18 Tensor folding, colour mapping, metrics (DESIGN.md section 7, C18)."""
from __future__ import annotations

import itertools
import math

import numpy as np
import quaternion

from .. import gen
from ..oracle import refq

ID = "C18"
LEVEL = "exploration"
EXHAUSTIVE = True
EXHAUSTIVE_NOTE = "every shape (I,J,K) in {1..4}^3 (quick) / {1..6}^3 (thorough) x every mode, on unique-id tensors; images and metrics sampled"
RULE = ("(a) exhaustive: unique-id tensors T[i,j,k] = (id,i,j,k) for every shape in the tier's cube and every mode: the unfolding "
        "must have shape (dim_n, prod others), every column must be a mode-n fibre (row index runs along axis n in order, the "
        "other two indices constant) and the columns a bijection onto the fibres; fold(unfold) and unfold(fold) exact; "
        "(b) Gaussian tensors: norm and multiset of moduli preserved; (c) colour/channel round trips exact for arbitrary real part "
        "and value ranges; (d) PSNR / relative error zero-distance consistency on equal arrays (incl. all-zero, constant) and "
        "arrays differing in one entry by delta in 1e-100..1; (e) add_awgn_snr: K seeded draws, mean noise power and mean within "
        "concentration bounds. distinct = (shape, mode) or input digest; non-trivial = more than one entry")
ASSUMPTIONS = ["differences whose square underflows (|delta| < 1e-150) are outside the float definition of MSE and excluded",
               "SNR clause is statistical: bound chosen so that a false alarm has probability < 1e-12 per check"]
SHARDS = {"quick": 4, "thorough": 8}
DECIDING = ["moduli_positions", "unfold_shape", "unfold_fibres", "fold_unfold_exact", "unfold_fold_exact", "norm_preserved", "moduli_preserved",
            "rgb_roundtrip", "channels_roundtrip", "psnr_zero_distance", "relerr_zero_distance", "snr_target"]


def cases(tier, seed):
    out = []
    md = 4 if tier == "quick" else 10
    for I, J, K in itertools.product(range(1, md + 1), repeat=3):
        out.append({"kind": "ids", "cls": "unique_id", "shape": [I, J, K]})
    for rep in range(10 if tier == "quick" else 600):
        out.append({"kind": "gauss", "cls": "gauss_tensor", "idx": rep, "seed": seed})
    for rep in range(48 if tier == "quick" else 600):
        out.append({"kind": "image", "cls": "image", "idx": rep, "seed": seed})
    for rep in range(8 if tier == "quick" else 400):
        out.append({"kind": "metrics", "cls": "metrics", "idx": rep, "seed": seed})
    # larger tensors / images (a dimension above 8 / 16 / 32 / 64; singleton and non-singleton dimensions mixed)
    for shp in [(9, 2, 33), (17, 17, 1), (1, 20, 9), (33, 1, 2), (2, 34, 3), (12, 12, 12), (65, 2, 1), (3, 3, 40), (16, 1, 16), (1, 1, 70)]:
        out.append({"kind": "ids", "cls": "unique_id", "shape": list(shp)})
    for rep_ in range(8 if tier == "quick" else 32):
        out.append({"kind": "gauss", "cls": "gauss_tensor", "idx": rep_, "seed": seed, "big": True})
    for rep_ in range(6 if tier == "quick" else 24):
        out.append({"kind": "image", "cls": "image", "idx": rep_, "seed": seed, "big": True})
        out.append({"kind": "metrics", "cls": "metrics", "idx": rep_, "seed": seed, "big": True})
    for shp in ((1, 1), (1, 2), (2, 1), (2, 2), (1, 3), (3, 3)):
        out.append({"kind": "snr", "cls": "snr", "idx": 100 + shp[0] * 10 + shp[1], "seed": seed, "draws": 20000 if tier == "quick" else 100000, "tiny": list(shp)})
    nd = 200 if tier == "quick" else 2000
    for rep in range(4 if tier == "quick" else 8):
        out.append({"kind": "snr", "cls": "snr", "idx": rep, "seed": seed, "draws": nd // 4 if tier == "quick" else nd // 8})
    return out


def run_case(spec, ctx, R):
    {"ids": _ids, "gauss": _gauss, "image": _image, "metrics": _metrics, "snr": _snr}[spec["kind"]](spec, ctx, R)


def _id_tensor(I, J, K):
    c = np.zeros((I, J, K, 4))
    ii, jj, kk = np.meshgrid(np.arange(I), np.arange(J), np.arange(K), indexing="ij")
    c[..., 0] = 1 + ii * J * K + jj * K + kk
    c[..., 1], c[..., 2], c[..., 3] = ii, jj, kk
    return quaternion.as_quat_array(c)


def _ids(spec, ctx, R):
    T = R.tensor
    I, J, K = spec["shape"]
    X = _id_tensor(I, J, K)
    dims = (I, J, K)
    for mode in range(3):
        ctx.distinct("ids", I, J, K, mode, nontrivial=(I * J * K > 1))
        M = T.tensor_unfold(X.copy(), mode)
        others = [d for a, d in enumerate(dims) if a != mode]
        ok_shape = M.shape == (dims[mode], others[0] * others[1]) and M.dtype == np.quaternion
        ctx.check("unfold_shape", ok_shape, site=f"mode{mode}", detail={"shape": dims, "got": M.shape})
        if not ok_shape:
            continue
        c = quaternion.as_float_array(M)
        idx = c[..., 1:].astype(int)                 # (rows, cols, 3): the (i,j,k) each entry names
        rows_ok = np.array_equal(idx[..., mode], np.broadcast_to(np.arange(dims[mode])[:, None], idx.shape[:2]))
        oth = [a for a in range(3) if a != mode]
        const_ok = all(np.all(idx[:, :, a] == idx[0:1, :, a]) for a in oth)
        cols = {tuple(idx[0, col, oth]) for col in range(idx.shape[1])}
        bij_ok = len(cols) == idx.shape[1] == others[0] * others[1]
        ids_ok = np.array_equal(c[..., 0], 1 + idx[..., 0] * J * K + idx[..., 1] * K + idx[..., 2])
        ctx.check("unfold_fibres", rows_ok and const_ok and bij_ok and ids_ok, site=f"mode{mode}",
                  detail={"shape": dims, "rows_in_order": bool(rows_ok), "others_constant": bool(const_ok),
                          "bijection": bool(bij_ok), "ids_consistent": bool(ids_ok)})
        back = T.tensor_fold(M.copy(), mode, dims)
        ctx.check("fold_unfold_exact", back.shape == dims and np.array_equal(quaternion.as_float_array(back), quaternion.as_float_array(X)),
                  site=f"mode{mode}", detail={"shape": dims})
        # unfold(fold(N)) for an arbitrary unique-id matrix of the right shape
        N = quaternion.as_quat_array(np.arange(M.size * 4, dtype=float).reshape(M.shape + (4,)))
        F = T.tensor_fold(N.copy(), mode, dims)
        again = T.tensor_unfold(F.copy(), mode) if F.shape == dims else None
        ctx.check("unfold_fold_exact", again is not None and np.array_equal(quaternion.as_float_array(again), quaternion.as_float_array(N)),
                  site=f"mode{mode}", detail={"shape": dims})
        # non-contiguous input (transposed view of a permuted copy) gives the same unfolding
        Xv = np.ascontiguousarray(np.transpose(X, (2, 1, 0))).transpose(2, 1, 0)
        ctx.check("fold_unfold_exact", np.array_equal(quaternion.as_float_array(T.tensor_unfold(Xv, mode)), c), site=f"mode{mode}:view")
    if I == 2 and J == 3:
        ctx.sample({"shape": dims, "tensor": "T[i,j,k]=(1+i*J*K+j*K+k, i, j, k)", "modes": [0, 1, 2]})


def _gauss(spec, ctx, R):
    T = R.tensor
    rng = gen.rng_for(spec["seed"], "c18g", spec["idx"])
    I, J, K = (int(x) for x in rng.integers(1, 7, size=3))
    if spec.get("big"):
        I, J, K = [(9, 2, 33), (17, 17, 1), (1, 20, 9), (33, 1, 2), (2, 34, 3), (12, 12, 12), (65, 2, 1), (3, 3, 40)][spec["idx"] % 8]
        ctx.hit("size:big_tensor")
    X = quaternion.as_quat_array(rng.standard_normal((I, J, K, 4)) * 10.0 ** float(rng.integers(-3, 4)))
    ctx.distinct(X)
    n0 = float(T.tensor_frobenius_norm(X.copy()))
    ref = math.sqrt(math.fsum(float(v) ** 2 for v in quaternion.as_float_array(X).ravel()))
    ctx.check("norm_preserved", abs(n0 - ref), 8 * (X.size + 4) * refq.EPS * ref, site="tensor_frobenius_norm")
    mods = np.sort(T.tensor_entrywise_abs(X.copy()).ravel())
    refm = np.sort(np.sqrt(np.sum(quaternion.as_float_array(X) ** 2, axis=-1)).ravel())
    ctx.check("moduli_preserved", np.abs(mods - refm).max(), 4 * refq.EPS * refm.max(), site="tensor_entrywise_abs")
    for mode in range(3):
        M = T.tensor_unfold(X.copy(), mode)
        ctx.check("norm_preserved", abs(float(T.tensor_frobenius_norm(M)) - n0), 8 * (X.size + 4) * refq.EPS * n0, site=f"unfold{mode}")
        ctx.check("moduli_preserved", np.array_equal(np.sort(T.tensor_entrywise_abs(M).ravel()), mods), site=f"unfold{mode}")
    # POSITIONS of the moduli, for every memory order a tensor can arrive in (C, Fortran, axis-permuted view, reversed axes, and the
    # views that tensor_unfold / tensor_fold themselves hand out): |X|[i,j,k] = |X[i,j,k]|, |unfold(X)| = unfold of the moduli
    ref_abs = np.sqrt(np.sum(quaternion.as_float_array(X) ** 2, axis=-1))
    forms = {"C": X.copy(), "F": np.asfortranarray(X), "permuted_view": np.ascontiguousarray(np.transpose(X, (2, 0, 1))).transpose(1, 2, 0),
             "reversed_view": np.ascontiguousarray(X[::-1, :, ::-1])[::-1, :, ::-1]}
    for lab, Xf in forms.items():
        tb = 4 * refq.EPS * max(float(ref_abs.max()), 1e-300)
        a = np.asarray(T.tensor_entrywise_abs(Xf))
        ctx.check("moduli_positions", a.shape == ref_abs.shape and float(np.abs(a - ref_abs).max()) <= tb, site="tensor_entrywise_abs:" + lab, detail={"shape": [I, J, K]})
        ctx.check("norm_preserved", abs(float(T.tensor_frobenius_norm(Xf)) - ref), 8 * (X.size + 4) * refq.EPS * ref, site="tensor_frobenius_norm:" + lab)
        for mode in range(3):
            M = T.tensor_unfold(Xf, mode)
            perm = [mode] + [d for d in range(3) if d != mode]
            want = np.transpose(ref_abs, perm).reshape(ref_abs.shape[mode], -1)
            am = np.asarray(T.tensor_entrywise_abs(M))
            ctx.check("moduli_positions", am.shape == want.shape and float(np.abs(am - want).max()) <= tb, site=f"abs(unfold{mode}):" + lab,
                      detail={"shape": [I, J, K], "unfolding_is_c_contiguous": bool(M.flags.c_contiguous)})
            back = T.tensor_fold(M, mode, (I, J, K))
            ab = np.asarray(T.tensor_entrywise_abs(back))
            ctx.check("moduli_positions", ab.shape == ref_abs.shape and float(np.abs(ab - ref_abs).max()) <= tb, site=f"abs(fold(unfold{mode})):" + lab,
                      detail={"shape": [I, J, K], "fold_output_is_c_contiguous": bool(back.flags.c_contiguous)})
    ctx.hit("layouts:tensor_memory_orders")


def _image(spec, ctx, R):
    Q = R.qslst
    rng = gen.rng_for(spec["seed"], "c18i", spec["idx"])
    H, W = (int(x) for x in rng.integers(1, 9, size=2))
    if spec.get("big"):
        H, W = [(33, 40), (17, 3), (1, 65), (64, 64), (20, 19), (130, 2)][spec["idx"] % 6]
    kind = ["unit", "255", "negative", "big", "int", "tiny"][spec["idx"] % 6]
    rgb = {"unit": rng.random((H, W, 3)), "255": rng.random((H, W, 3)) * 255.0, "negative": rng.standard_normal((H, W, 3)),
           "big": rng.standard_normal((H, W, 3)) * 1e6, "int": rng.integers(0, 256, size=(H, W, 3)).astype(np.uint8),
           "tiny": rng.random((H, W, 3)) * 1e-12}[kind]
    rp = float(rng.choice([0.0, 1.0, -2.5, 1e6, 1e-9]))
    ctx.distinct(kind, rgb, rp)
    # the real part in the forms a caller may pass it: omitted (default 0), positional, Python int, numpy integer / float32 scalars
    form = ["float", "omitted", "int", "np.int64", "np.float32", "positional", "np.int32(0)"][(spec["idx"] // 6) % 7]
    ctx.hit("callform:real_part_" + form)
    if form == "omitted":
        rp = 0.0
        q = Q.rgb_to_quat(rgb.copy())
    elif form == "int":
        rp = float(int(rng.integers(-3, 4)))
        q = Q.rgb_to_quat(rgb.copy(), real_part=int(rp))
    elif form == "np.int64":
        rp = float(int(rng.integers(-3, 4)))
        q = Q.rgb_to_quat(rgb.copy(), real_part=np.int64(rp))
    elif form == "np.int32(0)":
        rp = 0.0
        q = Q.rgb_to_quat(rgb.copy(), real_part=np.int32(0))
    elif form == "np.float32":
        rp = 0.25
        q = Q.rgb_to_quat(rgb.copy(), real_part=np.float32(0.25))
    elif form == "positional":
        q = Q.rgb_to_quat(rgb.copy(), rp)
    else:
        q = Q.rgb_to_quat(rgb.copy(), real_part=rp)
    ok = q.shape == (H, W, 4) and q.dtype == np.float64 and np.all(q[..., 0] == rp) and np.array_equal(q[..., 1:], rgb.astype(np.float64))
    ctx.check("rgb_roundtrip", ok, site="rgb_to_quat", tags=["real_part:" + form], detail={"kind": kind, "shape": [H, W], "dtype": str(q.dtype)})
    back = Q.quat_to_rgb(q.copy(), clip=False)
    ctx.check("rgb_roundtrip", back.shape == (H, W, 3) and np.array_equal(back, rgb.astype(np.float64)), site="quat_to_rgb(clip=False)",
              detail={"kind": kind})
    if kind in ("unit", "tiny"):
        back = Q.quat_to_rgb(q.copy(), clip=True)
        ctx.check("rgb_roundtrip", np.array_equal(back, rgb.astype(np.float64)), site="quat_to_rgb(clip=True):in[0,1]")
    if kind in ("255", "big", "int") and float(np.max(rgb.astype(np.float64))) > 1.5:
        # the documented heuristic clips only data that "appears normalized" (all values within [-0.5, 1.5]); 8-bit style and
        # large-magnitude images must come back unchanged from the default call
        back = Q.quat_to_rgb(q.copy())
        ctx.check("rgb_roundtrip", np.array_equal(back, rgb.astype(np.float64)), site="quat_to_rgb(default):not_normalized", detail={"kind": kind})
    # colour channels on DIFFERENT scales (one 8-bit style, one small, one that alone "looks normalized" with values in (1, 1.5]; any order):
    # the image as a whole is not normalized, so the default call returns every channel unchanged -- a per-channel decision would clip one
    amps = [[250.0, 80.0, 1.4], [1.4, 250.0, 80.0], [3.0, 1.45, 1.2], [1e6, 1.0, 1.3], [1.49, 1.49, 1.51], [40.0, 1.2, 0.9]][(spec["idx"] // 2) % 6]
    mixed = rng.random((H, W, 3)) * np.array(amps)
    mixed[0, 0, :] = amps                               # every channel attains its peak
    if float(mixed.max()) > 1.5:
        qm = Q.rgb_to_quat(mixed.copy(), real_part=rp)
        for form_, call in (("default", lambda: Q.quat_to_rgb(qm.copy())), ("clip=True", lambda: Q.quat_to_rgb(qm.copy(), clip=True)),
                            ("clip=False", lambda: Q.quat_to_rgb(qm.copy(), clip=False))):
            back = call()
            ctx.check("rgb_roundtrip", np.array_equal(back, mixed), site=f"quat_to_rgb({form_}):channels_on_different_scales",
                      detail={"amps": amps, "changed_channels": [int(c) for c in range(3) if not np.array_equal(back[..., c], mixed[..., c])]})
        ctx.hit("inputs:channels_on_different_scales")
    # images on the 8-bit scale with slight under- / overshoot (ringing of a restoration), and small generic ranges: max above 1.5, so the default
    # call returns them unchanged - there is no second "looks normalized" window at [0, 255]
    for lab_, lo_, hi_ in (("8bit_undershoot", -0.4, 250.0), ("8bit_overshoot", 0.0, 255.4), ("8bit_both", -0.45, 255.45), ("small_range", -0.3, 7.0)):
        im_ = lo_ + rng.random((H, W, 3)) * (hi_ - lo_)
        im_[0, 0, 0] = lo_; im_[H - 1, W - 1, 2] = hi_
        if float(im_.max()) > 1.5:
            back = Q.quat_to_rgb(Q.rgb_to_quat(im_.copy(), real_part=rp))
            ctx.check("rgb_roundtrip", np.array_equal(back, im_), site="quat_to_rgb(default):" + lab_,
                      detail={"range": [float(im_.min()), float(im_.max())], "changed": int(np.sum(back != im_))})
    # one pixel outside the "looks normalized" window in an otherwise [0,1] image: nothing may be clipped
    lone = rng.random((H, W, 3)) * 1.3
    lone[H - 1, W - 1, int(rng.integers(0, 3))] = [1.75, 255.0, -0.75][spec["idx"] % 3]
    if float(lone.max()) > 1.0 or float(lone.min()) < 0.0:
        back = Q.quat_to_rgb(Q.rgb_to_quat(lone.copy(), real_part=rp))
        ctx.check("rgb_roundtrip", np.array_equal(back, lone), site="quat_to_rgb(default):one_pixel_outside_window")
    qc = q.copy()
    _ = Q.quat_to_rgb(qc, clip=True)
    ctx.check("rgb_roundtrip", np.array_equal(qc, q), site="quat_to_rgb:input_unchanged")
    # channels
    full = rng.standard_normal((H, W, 4))
    parts = Q.split_quat_channels(full.copy())
    ctx.check("channels_roundtrip", len(parts) == 4 and all(np.array_equal(parts[t], full[..., t]) for t in range(4)), site="split")
    ctx.check("channels_roundtrip", np.array_equal(Q.stack_quat_channels(*parts), full), site="stack(split)")
    st = Q.stack_quat_channels(*[full[..., t].copy() for t in range(4)])
    p2 = Q.split_quat_channels(st)
    ctx.check("channels_roundtrip", all(np.array_equal(p2[t], full[..., t]) for t in range(4)), site="split(stack)")
    # the four channels in DIFFERENT dtypes (an integer / boolean mask or float32 plane as the real part next to float64 colours, and the
    # other way round): split(stack(...)) returns the values that were put in
    mixes = [(np.uint8, np.float64), (np.int64, np.float64), (np.float32, np.float64), (np.float64, np.float32), (np.float64, np.int32), (bool, np.float64),
             (np.float64, np.float64)]
    t0, t1 = mixes[spec["idx"] % len(mixes)]
    q0 = (rng.integers(0, 2, size=(H, W)) if t0 is bool else (rng.integers(0, 200, size=(H, W)) if np.dtype(t0).kind in "iu" else rng.random((H, W)))).astype(t0)
    cols = [(rng.integers(-50, 50, size=(H, W)) if np.dtype(t1).kind in "iu" else rng.random((H, W))).astype(t1) for _ in range(3)]
    chans = [q0] + cols
    try:
        stm = Q.stack_quat_channels(*[ch.copy() for ch in chans])
        pm = Q.split_quat_channels(stm)
        okm = len(pm) == 4 and all(np.array_equal(np.asarray(pm[t], dtype=np.float64), chans[t].astype(np.float64)) for t in range(4))
    except Exception as e:
        okm = False
    ctx.hit("callform:channels_mixed_dtypes")
    ctx.check("channels_roundtrip", okm, site="split(stack):mixed_dtypes", tags=[f"{np.dtype(t0).name}+{np.dtype(t1).name}"])
    if spec["idx"] < 2:
        ctx.sample({"image_kind": kind, "shape": [H, W], "real_part": rp})


def _metrics(spec, ctx, R):
    Q = R.qslst
    rng = gen.rng_for(spec["seed"], "c18m", spec["idx"])
    shape = tuple(int(x) for x in rng.integers(1, 7, size=int(rng.integers(1, 4))))
    if spec.get("big"):
        shape = [(33, 40, 3), (17, 17), (1025,), (64, 65), (20, 19, 4), (2, 130)][spec["idx"] % 6]
    kind = ["gauss", "zero", "const", "int"][spec["idx"] % 4]
    x = {"gauss": rng.standard_normal(shape), "zero": np.zeros(shape), "const": np.full(shape, 3.25),
         "int": rng.integers(0, 255, size=shape).astype(float)}[kind]
    ctx.distinct("metrics", kind, x)
    # equal arrays: infinite PSNR, zero relative error
    p = Q.psnr(x.copy(), x.copy())
    ctx.check("psnr_zero_distance", p == float("inf"), site="equal:" + kind, detail={"psnr": p})
    p = Q.psnr(x.copy(), x.copy(), data_range=1.0)
    ctx.check("psnr_zero_distance", p == float("inf"), site="equal:data_range", detail={"psnr": p})
    e = Q.relative_error(x.copy(), x.copy())
    ctx.check("relerr_zero_distance", e == 0.0, site="equal:" + kind, tags=["zero_reference"] if not np.any(x) else [],
              detail={"relative_error": e})
    # arrays differing in one entry by delta: finite PSNR, positive error
    for delta in (1.0, 1e-3, 1e-8, 1e-100):
        y = x.copy()
        pos = tuple(int(rng.integers(0, s)) for s in shape)
        y[pos] = y[pos] + delta
        if not np.any(y != x):
            ctx.skip("psnr_zero_distance", "delta absorbed by rounding")
            continue
        p = Q.psnr(y, x.copy())
        ctx.check("psnr_zero_distance", math.isfinite(p), site="differ", detail={"delta": delta, "psnr": p, "kind": kind})
        # the same pair with an EXPLICIT dynamic range (keyword / positional, float / int / numpy scalars; the data need not lie inside [0, range]:
        # negative Gaussian values, the constant 3.25 and 8-bit values against range 1.0): still finite, and equal to the definition
        mse_d = float(np.mean((y - x) ** 2))
        for di, drv in enumerate((1.0, 255, np.float32(2.0), np.int64(255), 2.0 ** -10, 1e6)):
            try:
                pd = Q.psnr(y.copy(), x.copy(), drv) if di % 2 else Q.psnr(y.copy(), x.copy(), data_range=drv)
            except Exception as ex:
                ctx.check("psnr_zero_distance", False, site="differ:data_range", detail={"exception": repr(ex)[:200], "data_range": repr(drv)})
                continue
            ctx.hit("callform:psnr_data_range_explicit")
            ctx.check("psnr_zero_distance", math.isfinite(pd), site="differ:data_range", detail={"delta": delta, "psnr": pd, "kind": kind, "data_range": repr(drv)})
            if mse_d > 0 and math.isfinite(pd):
                ctx.check("psnr_value", abs(pd - 10 * math.log10(float(drv) ** 2 / mse_d)), 1e-6, site="differ:data_range",
                          detail={"delta": delta, "psnr": pd, "kind": kind, "data_range": repr(drv)})
        e = Q.relative_error(y, x.copy())
        ctx.check("relerr_zero_distance", e > 0.0, site="differ", detail={"delta": delta, "relative_error": e, "kind": kind})
        if np.any(x):
            ref = float(np.linalg.norm((y - x).ravel()) / np.linalg.norm(x.ravel()))
            ctx.check("relerr_value", abs(e - ref), 1e-12 * ref + 1e-300, site="differ")
    # images stored in other dtypes (8/16/32-bit integers, float32): the metrics are defined on the VALUES; differences that are
    # multiples of 16 make the squared difference wrap to 0 in uint8 arithmetic
    for dt in (np.uint8, np.int16, np.uint16, np.int32, np.float32):
        info = np.iinfo(dt) if np.issubdtype(dt, np.integer) else None
        hi = min(info.max, 255) if info else 1.0
        xi = (rng.integers(0, hi // 2 + 1, size=shape) if info else rng.random(shape)).astype(dt)
        for step in ((16, 1, 48) if info else (0.25,)):
            yi = xi.copy()
            mask = rng.random(shape) < 0.5
            if not mask.any():
                mask.flat[0] = True
            yi[mask] = (yi[mask] + dt(step)).astype(dt)
            xv, yv = xi.astype(np.float64), yi.astype(np.float64)
            if not np.any(xv != yv):
                continue
            site = f"dtype:{np.dtype(dt).name}"
            try:
                pv = Q.psnr(yi.copy(), xi.copy())
                ev = Q.relative_error(yi.copy(), xi.copy())
            except Exception as e:
                ctx.check("psnr_zero_distance", False, site=site, detail={"exception": repr(e)})
                continue
            ctx.check("psnr_zero_distance", math.isfinite(pv), site=site, detail={"step": step, "psnr": pv})
            mse_o = float(np.mean((yv - xv) ** 2))
            dr_o = float(xv.max() - xv.min()) or 1.0
            ctx.check("psnr_value", abs(pv - 10 * math.log10(dr_o * dr_o / mse_o)), 1e-6, site=site, detail={"step": step, "psnr": pv})
            ctx.check("psnr_zero_distance", Q.psnr(xi.copy(), xi.copy()) == float("inf"), site=site + ":equal")
            if np.any(xv):
                ref = float(np.linalg.norm((yv - xv).ravel()) / np.linalg.norm(xv.ravel()))
                ctx.check("relerr_value", abs(ev - ref), 1e-6 * ref + 1e-300, site=site, detail={"step": step, "relative_error": ev, "oracle": ref})
            ctx.check("relerr_zero_distance", ev > 0.0, site=site, detail={"relative_error": ev})
    # RELATIONS between the two arguments whose differences cancel in aggregate although the arrays differ: two entries exchanged, a +d / -d pair
    # of edits, a permutation / reversal of the reference, a zero-mean perturbation, the mirrored array (sum, mean and every moment of the
    # difference that is odd vanish; only the squared differences do not)
    nn = int(np.prod(shape))
    if nn >= 2:
        flat = x.ravel()
        rel = {}
        i1, i2 = (int(v) for v in rng.choice(nn, size=2, replace=False))
        y = flat.copy(); y[i1], y[i2] = flat[i2], flat[i1]; rel["two_entries_exchanged"] = y
        y = flat.copy(); y[i1] += 0.5; y[i2] -= 0.5; rel["plus_minus_pair"] = y
        y = flat.copy(); y[i1] += 2.0 ** -20; y[i2] -= 2.0 ** -20; rel["plus_minus_pair_small"] = y
        rel["reversed"] = flat[::-1].copy()
        rel["permuted"] = flat[rng.permutation(nn)].copy()
        d = np.round(rng.standard_normal(nn) * 8.0) / 8.0
        d = d - d[::-1]                                                     # antisymmetric: sums to zero exactly
        rel["antisymmetric_perturbation"] = flat + d
        for lab, yv in rel.items():
            yv = yv.reshape(shape)
            if not np.any(yv != x):
                continue
            ctx.hit("relation:differences_cancel_in_aggregate")
            mse_r = float(np.mean((yv - x) ** 2))
            try:
                pr = Q.psnr(yv.copy(), x.copy())
                ctx.check("psnr_zero_distance", math.isfinite(pr), site="differ:relation:" + lab, detail={"psnr": pr, "kind": kind})
                pr1 = Q.psnr(yv.copy(), x.copy(), data_range=1.0)
                ctx.check("psnr_zero_distance", math.isfinite(pr1), site="differ:relation:" + lab + ":data_range", detail={"psnr": pr1, "kind": kind})
                if mse_r > 0 and math.isfinite(pr1):
                    ctx.check("psnr_value", abs(pr1 - 10 * math.log10(1.0 / mse_r)), 1e-6, site="differ:relation:" + lab, detail={"psnr": pr1})
                er = Q.relative_error(yv.copy(), x.copy())
                ctx.check("relerr_zero_distance", er > 0.0, site="differ:relation:" + lab, detail={"relative_error": er})
            except Exception as ex:
                ctx.check("psnr_zero_distance", False, site="differ:relation:" + lab, detail={"exception": repr(ex)[:200]})
    # PSNR value against the definition on a generic pair
    y = x + rng.standard_normal(shape) * 0.1
    mse = float(np.mean((y - x) ** 2))
    dr = float(x.max() - x.min()) or 1.0
    ctx.check("psnr_value", abs(Q.psnr(y, x.copy()) - 10 * math.log10(dr * dr / mse)), 1e-9, site="generic")


def _snr(spec, ctx, R):
    Q = R.qslst
    rng = gen.rng_for(spec["seed"], "c18s", spec["idx"])
    H, W = int(rng.integers(8, 17)), int(rng.integers(8, 17))
    if spec.get("tiny"):
        # images of one to nine pixels: a bias of order 1/N in the noise power (N = 4 H W components) is 25 % .. 3 % there
        H, W = spec["tiny"]
        ctx.hit("snr:tiny_image")
    img = rng.standard_normal((H, W, 4)) * float(rng.choice([1.0, 50.0, 1e-3])) + float(rng.choice([0.0, 3.0]))
    snr_db = float(rng.choice([0.0, 10.0, 20.0, 35.0]))
    ctx.distinct("snr", img, snr_db)
    N = img.size
    K = spec["draws"]
    target = float(np.sum(img ** 2)) / 10 ** (snr_db / 10.0)
    powers, means = [], []
    for d in range(K):
        g = np.random.default_rng([spec["seed"], spec["idx"], d])
        noisy = Q.add_awgn_snr(img.copy(), snr_db, rng=g)
        noise = noisy - img
        powers.append(float(np.sum(noise ** 2)))
        means.append(float(noise.mean()))
    mp = float(np.mean(powers))
    # sum of N*K squared Gaussians: relative std sqrt(2/(N K)); 8 sigma
    ctx.check("snr_target", abs(mp - target) / target, 8 * math.sqrt(2.0 / (N * K)), site="mean_noise_power",
              detail={"snr_db": snr_db, "target": target, "mean_power": mp, "draws": K, "N": N})
    sigma = math.sqrt(target / N)
    ctx.check("snr_target", abs(float(np.mean(means))), 8 * sigma / math.sqrt(N * K), site="noise_mean")
    # a single draw: power / target * N is chi-square with N degrees of freedom; two-sided quantiles with total false-alarm mass 1e-9
    from scipy.stats import chi2
    hi = float(chi2.isf(0.5e-9 / K, N)) / N
    lo = float(chi2.ppf(0.5e-9 / K, N)) / N
    ctx.check("snr_target", bool(lo <= min(powers) / target and max(powers) / target <= hi), site="per_draw_power",
              detail={"min_ratio": min(powers) / target, "max_ratio": max(powers) / target, "quantiles": [lo, hi], "N": N, "draws": K})
    # EXACT form of "hits the requested SNR in expectation": the noise of one draw is sigma * z with z the standard-normal stream of the
    # generator that was passed (recovered by projecting the returned noise onto that stream; if the routine draws differently the fit is
    # poor and nothing is judged); then E||noise||^2 = N sigma^2 must equal ||signal||^2 / 10^(snr/10) to rounding, for every snr incl.
    # negative and fractional ones -- a Monte-Carlo estimate cannot see a miscalibration below 1e-3
    for snr_x in (snr_db, -5.0, 3.7, 40.0, 60.0):
        g1 = np.random.default_rng([spec["seed"], spec["idx"], 777])
        g2 = np.random.default_rng([spec["seed"], spec["idx"], 777])
        noisy = Q.add_awgn_snr(img.copy(), snr_x, rng=g1)
        zs = g2.standard_normal(img.shape)
        nz = noisy - img
        sig_hat = float(np.sum(nz * zs) / np.sum(zs * zs))
        fit = float(np.linalg.norm(nz - sig_hat * zs) / max(np.linalg.norm(nz), 1e-300))
        recov = 64 * refq.EPS * float(np.abs(img).max()) / max(abs(sig_hat), 1e-300)          # rounding of (img + noise) - img relative to the noise
        if fit <= 1e-9 + recov:
            tgt = float(np.sum(img ** 2)) / 10 ** (snr_x / 10.0)
            ctx.hit("snr:exact_sigma_recovered")
            ctx.check("snr_target", abs(N * sig_hat * sig_hat - tgt) / tgt, 1e-10 + 4 * recov, site="expected_noise_power_exact",
                      detail={"snr_db": snr_x, "sigma_recovered": sig_hat, "target_power": tgt, "fit_residual": fit})
        else:
            ctx.hit("snr:stream_not_recovered")
    # default generator path and the zero-signal path
    out = Q.add_awgn_snr(img.copy(), snr_db)
    ctx.check("snr_target", out.shape == img.shape and float(chi2.ppf(1e-10, N)) / N <= float(np.sum((out - img) ** 2)) / target <= float(chi2.isf(1e-10, N)) / N,
              site="default_rng")
    z = np.zeros((H, W, 4))
    out = Q.add_awgn_snr(z, snr_db)
    ctx.check("snr_target", np.array_equal(out, z) and out is not z, site="zero_signal_unchanged")
    if spec["idx"] == 0:
        ctx.sample({"image": [H, W, 4], "snr_db": snr_db, "draws": K, "mean_power/target": mp / target})
