"""C04 Q-GMRES: true solution, truthful info (DESIGN.md section 7, C04)."""
from __future__ import annotations

import math

import numpy as np
import quaternion

from .. import gen, reach, repo
from ..oracle import embed, refq

ID = "C04"
LEVEL = "fault_enumeration"
RULE = ("systems A x = b with oracle-built nonsingular A of known conditioning (generic, Hermitian definite/indefinite, unitary, "
        "scaled identity, identity + rank-1/2, triangular, Hermitian with d distinct eigenvalues for every d = 1..n, uniform scalings "
        "1e-6..1e6) x right-hand sides (generic, eigenvectors and sums of j eigenvectors, unit vectors, zero) x tolerances 1e-2..1e-12 "
        "x iteration caps None, 0..n-1 (the restart iterate of every cycle) x preconditioner none/left_lu x dense/sparse A. Every "
        "solve is judged by monitors M1-M6 against an independent complex-adjoint oracle (true residual, Krylov-space optimum of "
        "every cycle, direct solution). Fault paths: lucky breakdown at every Arnoldi step d = 1..n (driven by the d-distinct-"
        "eigenvalue and j-eigenvector classes, observed with (m, j) by a sys.monitoring branch counter), LU-preconditioner failure "
        "(failpoint: the quaternion_lu looked up by solve() raises the routine's own 'Zero pivot' error). distinct = digest of "
        "(A, b); non-trivial = b != 0 and n > 1")
ASSUMPTIONS = ["kappa(A) <= 1e3 by construction; the sound-flag bound for left_lu carries the factor kappa(A) (left-preconditioned stopping test)",
               "a zero diagonal in the small triangular solve is not reachable for nonsingular in-range data without breakdown; its reach counter is reported, not forced",
               "rounding floor 1e3*n*eps*kappa on relative residuals"]
SHARDS = {"quick": 8, "thorough": 16}
TIMEOUT = {"quick": 900, "thorough": 5400}
DECIDING = ["M1_residual_truthful", "M2_flag_sound", "M3_history_nonincreasing", "M3_history_truthful", "M4_cycle_optimal", "M5_solves_within_n_cycles",
            "M6_same_solution", "zero_rhs"]
MUST_REACH = ["gmres:lucky_breakdown", "gmres:lu_fallback", "stagnation:cycled_past_invariance"]

EPS = refq.EPS
CLASSES = ["generic", "herm_def", "herm_indef", "unitary", "scaled_identity", "identity_rank1", "identity_rank2", "upper_tri",
           "lower_tri", "distinct_eigs", "quat_scaled_identity", "real_diagonal", "clustered_eigs", "near_identity", "jordan_upper", "jordan_lower", "weighted_cyclic_shift", "hollow_hermitian"]


# --------------------------------------------------------------------------------------
# workload
# --------------------------------------------------------------------------------------

def cases(tier, seed):
    out = []
    nmax = 6 if tier == "quick" else 12
    reps = 1 if tier == "quick" else 3
    idx = 0
    for n in range(1, nmax + 1):
        for cls in CLASSES:
            ds = [None]
            if cls == "distinct_eigs":
                ds = list(range(1, n + 1))
            if cls == "clustered_eigs":
                ds = [max(1, n // 2)]
            for d in ds:
                for rep in range(reps):
                    if tier == "thorough" and n > 8 and rep > 0:
                        continue
                    out.append({"kind": "system", "cls": cls, "n": n, "d": d, "idx": idx, "seed": seed, "tier": tier})
                    idx += 1
    for n in (2, 3, 4, 5, 6) if tier == "quick" else (2, 3, 4, 5, 6, 7, 9, 11):
        for c in (1e-9, 1e-6, 1e-3, 1e3, 1e6):
            out.append({"kind": "scaling", "cls": f"scaling:{c:g}", "n": n, "c": c, "idx": idx, "seed": seed})
            idx += 1
        # fast-but-not-one-step convergence at small scale and the tightest tolerances: an absolute test on the residual norm would stop early
        for mcls_ in ("identity_small_lowrank", "near_identity", "clustered_eigs"):
            for c in (1e-6, 1e-9, 1.0):
                out.append({"kind": "scaling", "cls": f"scaling:{c:g}:{mcls_}", "n": n, "c": c, "mcls": mcls_, "idx": idx, "seed": seed})
                idx += 1
        # only the right-hand side is small / large (||b|| << tol, resp. >> 1): the relative residual must not care
        for cb in (1e-8, 1e-4, 1e5):
            out.append({"kind": "scaling", "cls": f"rhs_scaling:{cb:g}", "n": n, "c": 1.0, "cb": cb, "idx": idx, "seed": seed})
            idx += 1
        # ... also for matrices that converge GRADUALLY over the restart cycles, at the tightest tolerances: some cycle then starts from a
        # residual that is tiny against ||A|| (1e-16 ||A||) and still above tol ||b|| -- any test that measures the residual against ||A||
        # instead of ||b|| stops there
        for mcls_ in ("near_identity", "clustered_eigs", "identity_small_lowrank"):
            for cb in (1e-6, 1e-9):
                out.append({"kind": "scaling", "cls": f"rhs_scaling:{cb:g}:{mcls_}", "n": n, "c": 1.0, "cb": cb, "mcls": mcls_, "idx": idx, "seed": seed})
                idx += 1
    # identity plus a LARGE low-rank term (norm 1e3 .. 1e7): the Krylov space is invariant after r + 1 vectors, but the sub-diagonal entry
    # that should vanish is round-off of the size of eps * ||A||, i.e. at the edge of what an exact-zero breakdown test sees.  The
    # attainable residual (eps * kappa) is above the smallest in-domain tolerance, so the solver keeps cycling: the history has to stay
    # at that plateau
    for (n, reps_) in ((10, 1), (12, 2), (16, 2)) if tier == "quick" else ((8, 3), (12, 4), (16, 4), (20, 3), (24, 3)):
        for rep in range(reps_):
            for sig in (1e5, 1e7) if tier == "quick" else (1e3, 1e5, 1e6, 1e7):
                out.append({"kind": "stagnation", "cls": "stagnation", "n": n, "sig": sig, "rank": 1 + (rep + n) % 2, "idx": idx, "seed": seed})
                idx += 1
    for (n_, c2) in ([(34, "cyclic_shift"), (36, "generic"), (17, "cyclic_shift"), (20, "generic")] if tier == "quick" else
                     [(34, "cyclic_shift"), (36, "generic"), (17, "cyclic_shift"), (20, "generic"), (66, "cyclic_shift"), (40, "generic"), (33, "generic"), (48, "cyclic_shift")]):
        out.append({"kind": "large", "cls": "large", "cls2": c2, "n": n_, "idx": idx, "seed": seed})
        idx += 1
    for n_ in (2, 5) if tier == "quick" else (2, 3, 5, 8):
        for c_ in (1.0, 1e-6, 1e6):
            out.append({"kind": "alias_rhs", "cls": "alias_rhs", "n": n_, "c": c_, "idx": idx, "seed": seed})
            idx += 1
    for n in (1, 2, 4) if tier == "quick" else (1, 2, 3, 4, 6, 8):
        out.append({"kind": "lu_failpoint", "cls": "lu_failpoint", "n": n, "idx": idx, "seed": seed})
        idx += 1
    return out


def make_matrix(rng, cls, n, d=None):
    """Returns (A, info) with info['eigvecs'] (quaternion unitary U) when A = U diag U^H."""
    info = {}
    if cls == "generic":
        kappa = float(rng.choice([3.0, 30.0, 300.0]))
        s = np.geomspace(kappa, 1.0, n) if n > 1 else np.array([1.5])
        A, _, _ = refq.with_singular_values(rng, n, n, s)
    elif cls == "near_identity":
        # Krylov space NEARLY invariant after one step (sub-diagonal 1e-3..1e-7 relative), but no breakdown
        pert = 10.0 ** float(rng.choice([-3.0, -5.0, -7.0]))
        A = refq.eye(n) * float(rng.choice([1.0, -2.0])) + refq.randq(rng, n, n) * pert
        info["near_invariant"] = pert
    elif cls in ("herm_def", "herm_indef", "distinct_eigs", "real_diagonal", "clustered_eigs"):
        if cls == "herm_def":
            lam = 1.0 + 9.0 * rng.random(n)
        elif cls == "herm_indef":
            lam = (1.0 + 4.0 * rng.random(n)) * rng.choice([-1.0, 1.0], size=n)
            if n > 1:
                lam[0], lam[1] = abs(lam[0]), -abs(lam[1])
        else:
            dd = d if d is not None else int(rng.integers(1, n + 1))
            vals = (1.0 + np.arange(dd) * 1.5) * rng.choice([-1.0, 1.0], size=dd)
            lam = np.array([vals[i % dd] for i in range(n)])
            info["distinct"] = dd
            if cls == "clustered_eigs":
                # d clusters: the members of a cluster differ by 1e-3 .. 1e-6 relative (nearly, not exactly, repeated eigenvalues)
                lam = lam * (1.0 + 10.0 ** rng.choice([-3.0, -4.5, -6.0], size=n) * rng.standard_normal(n))
                info["distinct"] = n
        if cls == "real_diagonal":
            A = refq.diagq(lam)
            info["eigvecs"] = refq.eye(n)
        else:
            A, U = refq.hermitian_with_eigs(rng, lam)
            info["eigvecs"] = U
        info["eigs"] = lam
    elif cls == "unitary":
        A = refq.rand_unitary(rng, n)
    elif cls == "scaled_identity":
        A = float(rng.choice([1.0, -2.5, 0.3])) * refq.eye(n)
        info["eigvecs"] = refq.eye(n)
    elif cls == "quat_scaled_identity":
        q = refq.randq(rng, 1, 1)[0, 0]
        A = refq.eye(n) * q
    elif cls == "identity_small_lowrank":
        # identity plus a SMALL rank-2/3 term: the residual drops by several orders per cycle but not to zero in one step, so intermediate
        # iterates have residuals of 1e-9 .. 1e-12
        r = int(rng.integers(2, 4))
        u = refq.randq(rng, n, min(r, n)); v = refq.randq(rng, n, min(r, n))
        A = refq.eye(n) + refq.matmul(u, refq.herm(v)) * (10.0 ** -float(rng.integers(2, 5)) / max(refq.fro(u) * refq.fro(v), 1e-300))
    elif cls in ("identity_rank1", "identity_rank2"):
        r = 1 if cls == "identity_rank1" else 2
        u = refq.randq(rng, n, r) * 0.5
        v = refq.randq(rng, n, r) * 0.5
        A = refq.eye(n) + refq.matmul(u, refq.herm(v))
    elif cls in ("upper_tri", "lower_tri"):
        c = rng.standard_normal((n, n, 4)) * 0.4
        mask = np.triu(np.ones((n, n)), 1) if cls == "upper_tri" else np.tril(np.ones((n, n)), -1)
        c *= mask[..., None]
        for i in range(n):
            v = rng.standard_normal(4)
            c[i, i] = v / np.linalg.norm(v) * (1.0 + rng.random())
        A = refq.qa(c)
    elif cls in ("weighted_cyclic_shift", "hollow_hermitian"):
        # v^H A v = 0 EXACTLY for unit-vector right-hand sides (a weighted cyclic shift / exchange matrix; a Hermitian matrix with zero diagonal):
        # the first Arnoldi step makes no progress and the projected Hessenberg matrix starts with an exact zero on its diagonal
        if cls == "weighted_cyclic_shift" or n < 2:
            c = np.zeros((n, n, 4))
            u = refq.fa(refq.unit_quats(rng, n)) * (1.0 + rng.random((n, 1)))
            for i in range(n):
                c[(i + 1) % n, i] = u[i]
            A = refq.qa(c)
        else:
            B = refq.randq(rng, n, n)
            c = refq.fa(refq.symmetrize(B + refq.herm(B))).copy()
            c[np.arange(n), np.arange(n)] = 0.0
            A = refq.qa(c)
            if embed.cond(A) > 1e4:
                A = A + refq.qa(np.roll(np.eye(n), 1, axis=0)[..., None] * np.array([0.0, 0.0, 0.7, 0.0]))       # still hollow for n >= 2... keep well conditioned
                cc = refq.fa(A).copy(); cc[np.arange(n), np.arange(n)] = 0.0
                A = refq.qa(cc)
    elif cls in ("jordan_upper", "jordan_lower"):
        # ONE Jordan block: a repeated NON-REAL quaternion on the diagonal and generic quaternions next to it (defective: a single eigen-
        # direction).  With the right-hand side "defective_eig_residual" (rhs_list) the residual left by the first cycle is, up to round-off,
        # that eigenvector: the next cycle starts from an almost invariant Krylov space at an INNER Arnoldi step, after a cycle that failed
        lam = refq.randq(rng, 1, 1)[0, 0]
        lam = lam / abs(lam) * (1.0 + rng.random())
        mus = refq.randq(rng, max(n - 1, 1), 1)[:, 0]
        if rng.random() < 0.5:                     # small integer data half of the time
            lam = np.quaternion(*[float(v) for v in rng.integers(-3, 4, size=4)])
            lam = lam if abs(lam) > 0 and (lam.x, lam.y, lam.z) != (0.0, 0.0, 0.0) else np.quaternion(1, 1, 0, 0)
            mus = refq.qa(rng.integers(-3, 4, size=(max(n - 1, 1), 4)).astype(float))
            mus = np.array([m_ if abs(m_) > 0 else np.quaternion(2, 0, -1, 0) for m_ in mus])
        A = refq.zeros(n, n)
        for i in range(n):
            A[i, i] = lam
        for i in range(n - 1):
            if cls == "jordan_upper":
                A[i, i + 1] = mus[i]
            else:
                A[i + 1, i] = mus[i]
        info["jordan"] = (lam, mus, cls == "jordan_upper")
    else:
        raise ValueError(cls)
    return A, info


def rhs_list(rng, n, info, tier):
    out = [("generic", refq.randq(rng, n, 1))]
    if info.get("jordan") is not None and n >= 2:
        lam, mus, upper = info["jordan"]
        for t in range(2):
            sq = refq.randq(rng, 1, 1)[0, 0] if t else np.quaternion(*[float(v) for v in (1, 0, 0, 1)])
            b = refq.zeros(n, 1)
            if upper:                              # b = (..0.., -lam^-1 mu s, s): the first-cycle residual is ~ e_{n-1} q
                b[n - 1, 0] = sq
                b[n - 2, 0] = -(1 / lam) * mus[n - 2] * sq
            else:                                  # mirror image
                b[0, 0] = sq
                b[1, 0] = -(1 / lam) * mus[0] * sq
            out.append(("defective_eig_residual", b))
    e = np.zeros((n, 1, 4))
    e[int(rng.integers(0, n)), 0, int(rng.integers(0, 4))] = 1.0
    out.append(("unit_vector", refq.qa(e)))
    U = info.get("eigvecs")
    if U is not None:
        js = range(1, n + 1) if tier == "thorough" or n <= 4 else (1, 2, n)
        for j in js:
            cols = rng.choice(n, size=j, replace=False)
            w = refq.randq(rng, j, 1)
            out.append((f"eig_sum_{j}", refq.matmul(U[:, cols].copy(), w)))
        # nearly (not exactly) an eigenvector: the Krylov space is nearly invariant after one step
        j = int(rng.integers(0, n))
        out.append(("near_eigvec", U[:, j:j + 1].copy() + refq.randq(rng, n, 1) * 10.0 ** float(rng.choice([-3.0, -5.0]))))
    out.append(("zero", refq.zeros(n, 1)))
    return out


# --------------------------------------------------------------------------------------
# oracle pieces
# --------------------------------------------------------------------------------------

def rho(A, x, b):
    nb = refq.fro(b)
    return refq.fro(refq.matmul(A, x) - b) / nb if nb > 0 else float("nan")


def krylov_optimum(A, r, m):
    """(narrow, wide) values of min over y in H^m of ||r - A K y||_F, K an ORTHONORMAL basis of the right quaternion span of r, A r, ..., A^{m-1} r.

    The basis is built by Arnoldi with two passes of Gram-Schmidt (the raw power basis is too ill-conditioned beyond m ~ 8: a
    least-squares solve on it under-estimates what the space contains and the clause "the iterate lies in the Krylov space" then
    fires on correct iterates); the minimisation is a complex-adjoint least-squares problem with the conditioning of A.
    When the space becomes numerically invariant, "narrow" stops there and "wide" keeps the round-off directions: optimality is
    judged against the narrow space and membership against the wide one, so that neither clause depends on round-off directions."""
    v = r / max(refq.fro(r), 1e-300)
    cols = [v]
    narrow = None
    for _ in range(m - 1):
        w = refq.matmul(A, cols[-1])
        nw0 = refq.fro(w)
        for _pass in range(2):
            for u in cols:
                h = refq.matmul(refq.herm(u), w)          # 1 x 1
                w = w - refq.matmul(u, h)                  # right multiplication: right span
        nw = refq.fro(w)
        if nw == 0.0:
            break
        if nw <= 1e-10 * max(nw0, 1e-300) and narrow is None:
            narrow = len(cols)                             # (numerically) invariant from here on: further directions are round-off
        cols.append(w / nw)
    rhs = embed.chi(r)[:, 0]

    def opt(k):
        M = embed.chi(refq.matmul(A, np.concatenate(cols[:k], axis=1)))    # 2n x 2k
        z, *_ = np.linalg.lstsq(M, rhs, rcond=None)
        return float(np.linalg.norm(rhs - M @ z))
    wide = opt(len(cols))
    return (opt(narrow) if narrow is not None else wide), wide


# --------------------------------------------------------------------------------------
# monitors
# --------------------------------------------------------------------------------------

_SOLVE_COUNTER = [0]


def solve(R, A, b, *, tol=1e-6, cap=None, prec=None, sparse=False):
    _SOLVE_COUNTER[0] += 1
    k = _SOLVE_COUNTER[0]
    # call forms on a rotating subset: verbose=True (prints only), 'none' spelled out (the documented name of the default), and the defaults left
    # out of the constructor call
    vb = k % 5 == 0
    pname = prec if k % 3 else ({None: "none"}.get(prec, prec))
    kw = {"tol": tol, "max_iter": cap, "verbose": vb, "preconditioner": pname}
    if prec is None and k % 4 == 1:
        kw.pop("preconditioner")
    if pname is None:
        kw.pop("preconditioner", None)
    if cap is None and k % 2:
        kw.pop("max_iter")
    if not vb and k % 7 == 3:
        kw.pop("verbose")
    S = R.solver.QGMRESSolver(**kw)
    # the same system in other memory layouts (Fortran order, strided, transposed view, read-only) on a rotating subset of calls
    Ain = R.sparse_from_dense(A) if sparse else gen.vary(A, k)
    bin_ = gen.vary(b, k // 7)
    with np.errstate(all="ignore"), repo.quiet():
        x, info = S.solve(Ain, bin_)
    return x, info


def judge_solve(ctx, A, b, x, info, *, tol, cap, prec, kappa, site, tags):
    """M1, M2, M3 on one (x, info)."""
    n = A.shape[0]
    floor = 1e3 * n * EPS * kappa
    ok_shape = isinstance(x, np.ndarray) and x.shape == (n, 1) and x.dtype == np.quaternion
    if not ok_shape or not refq.is_finite(x):
        ctx.check("M1_residual_truthful", False, site=site, tags=tags, detail={"x_shape": getattr(x, "shape", None), "finite": False})
        return None
    r = rho(A, x, b)
    rep = float(info.get("residual", float("nan")))
    scale = refq.fro(A) * refq.fro(x) / refq.fro(b) + 1.0
    ctx.check("M1_residual_truthful", abs(rep - r), 1e-9 * max(r, 0.0) + 64 * n * EPS * scale, site=site, tags=tags,
              detail={"reported": rep, "true": r, "tol": tol, "cap": cap})
    rt = float(info.get("residual_true", float("nan")))
    ctx.check("M1_residual_truthful", abs(rt - r), 1e-9 * max(r, 0.0) + 64 * n * EPS * scale, site=site + ":residual_true", tags=tags)
    conv = bool(info.get("converged"))
    cfac = (1.0 + 1e-6) * (max(1.0, kappa) if prec == "left_lu" else 1.0)
    if conv:
        ctx.hit("flag:converged")
        ctx.check("M2_flag_sound", r, tol * cfac + floor, site=site, tags=tags,
                  detail={"true_residual": r, "tol": tol, "cap": cap, "iterations": info.get("iterations"), "kappa": kappa})
    else:
        ctx.hit("flag:not_converged")
    hist = info.get("residual_history") or []
    if len(hist) >= 1:
        col = np.array([float(h[2]) for h in hist])
        ok_fin = bool(np.all(np.isfinite(col)))
        inc = float(np.max(col[1:] - col[:-1])) if len(col) > 1 else 0.0
        ctx.check("M3_history_nonincreasing", ok_fin and inc <= 1e-10 * col.max() + floor, site=site, tags=tags,
                  detail={"history": col[:12], "max_increase": inc})
        cyc = [int(h[0]) for h in hist]
        ctx.check("M3_history_nonincreasing", cyc == list(range(1, len(cyc) + 1)), site=site + ":cycle_index", tags=tags)
    return r


def _system(spec, ctx, R):
    n, cls, tier = spec["n"], spec["cls"], spec["tier"]
    rng = gen.rng_for(spec["seed"], "c04sys", spec["idx"])
    A, info = make_matrix(rng, cls, n, spec.get("d"))
    kappa = embed.cond(A)
    floor = 1e3 * n * EPS * kappa
    tols = (1e-6, 1e-10) if tier == "quick" else (1e-2, 1e-6, 1e-10, 1e-12)
    rhs = rhs_list(rng, n, info, tier)
    for bi, (bname, b) in enumerate(rhs):
        tags = [cls, "rhs:" + bname.split("_")[0]]
        ctx.distinct(A, b, nontrivial=(bname != "zero" and n > 1))
        if bname == "zero":
            _zero_rhs(ctx, R, A, b, tags)
            continue
        xo = embed.solve(A, b)
        # --- full runs: cap None, tolerances, preconditioners, storage ---------------------
        sols = {}
        sols_info = {}
        for tol in tols:
            for prec in (None, "left_lu"):
                for sp in ((False, True) if (tol == tols[0] or tier == "thorough") else (False,)):
                    site = f"solve[{prec or 'none'}{',sparse' if sp else ''}]"
                    try:
                        x, inf = solve(R, A, b, tol=tol, prec=prec, sparse=sp)
                    except Exception as e:
                        ctx.check("M5_solves_within_n_cycles", False, site=site, tags=tags, detail={"exception": repr(e)[:200], "tol": tol})
                        continue
                    r = judge_solve(ctx, A, b, x, inf, tol=tol, cap=None, prec=prec, kappa=kappa, site=site, tags=tags)
                    if r is None:
                        continue
                    cfac = (1.0 + 1e-6) * (max(1.0, kappa) if prec == "left_lu" else 1.0)
                    if tol >= 1e-10:
                        ctx.check("M5_solves_within_n_cycles", r, max(tol * cfac, floor) + floor, site=site, tags=tags,
                                  detail={"true_residual": r, "tol": tol, "iterations": inf.get("iterations"), "n": n, "kappa": kappa,
                                          "converged": bool(inf.get("converged"))})
                        # the solution itself, against the oracle's direct solve
                        err = refq.fro(x - xo) / max(refq.fro(xo), 1e-300)
                        ctx.check("M6_same_solution", err, kappa * (max(tol * cfac, floor) + floor) * 1.01, site=site + ":vs_oracle", tags=tags,
                                  detail={"rel_err": err, "tol": tol})
                    sols[(tol, prec, sp)] = x
                    if tol == min(tols) and not sp:
                        sols_info[prec] = list(inf.get("residual_history") or [])
        # --- every restart iterate: caps 0..n-1 with tol = 1e-300 (stops only on an exactly zero residual) --------------------------------
        for prec in (None, "left_lu") if (tier == "thorough" or bi == 0) else (None,):
            x_prev = refq.zeros(n, 1)
            for m in range(1, n + 1):
                site = f"cycle[{prec or 'none'}]"
                try:
                    x, inf = solve(R, A, b, tol=1e-300, cap=m - 1, prec=prec)
                except Exception as e:
                    ctx.check("M4_cycle_optimal", False, site=site, tags=tags, detail={"exception": repr(e)[:200], "cycle": m})
                    break
                r = judge_solve(ctx, A, b, x, inf, tol=1e-300, cap=m - 1, prec=prec, kappa=kappa, site=site, tags=tags)
                if r is None:
                    break
                if prec is None:
                    r_prev = b - refq.matmul(A, x_prev)
                    if refq.fro(r_prev) / refq.fro(b) > 1e-9:
                        opt, opt_wide = (v / refq.fro(b) for v in krylov_optimum(A, r_prev, m))
                        ctx.check("M4_cycle_optimal", r, opt * (1 + 1e-6) + floor, site=site, tags=tags,
                                  detail={"cycle": m, "residual": r, "krylov_optimum": opt, "n": n})
                        ctx.check("M4_iterate_in_krylov_space", opt_wide, r * (1 + 1e-6) + floor, site=site, tags=tags,
                                  detail={"cycle": m, "residual": r, "krylov_optimum": opt_wide})
                    else:
                        ctx.skip("M4_cycle_optimal", "previous iterate already at rounding level")
                # the residual after cycle m must not exceed the one after cycle m-1
                r_before = rho(A, x_prev, b)
                ctx.check("M3_history_nonincreasing", r, r_before * (1 + 1e-9) + floor, site=site + ":across_caps", tags=tags,
                          detail={"cycle": m, "before": r_before, "after": r})
                if m == n:
                    ctx.check("M5_solves_within_n_cycles", r, (max(1.0, kappa) if prec else 1.0) * floor * 10, site=site + ":after_n_cycles",
                              tags=tags, detail={"residual_after_n_cycles": r, "n": n, "kappa": kappa})
                # the history reported by a full run is the history of these iterates (entry m-1 = residual of the cycle-m iterate)
                full = sols_info.get(prec)
                if full is not None and len(full) >= m and prec is None:
                    rep_m = float(full[m - 1][2])
                    scale = refq.fro(A) * refq.fro(x) / refq.fro(b) + 1.0
                    ctx.check("M3_history_truthful", abs(rep_m - r), 1e-9 * r + 64 * n * EPS * scale, site=site + ":vs_full_run", tags=tags,
                              detail={"cycle": m, "reported": rep_m, "true": r})
                # user tolerances combined with the cap: the flag must follow the residual of the iterate that is returned
                for utol in ((1e-2,) if tier == "quick" else (1e-2, 1e-4, 1e-8)):
                    try:
                        xu, infu = solve(R, A, b, tol=utol, cap=m - 1, prec=prec)
                    except Exception as e:
                        ctx.check("M2_flag_sound", False, site=site + ":tol_and_cap", tags=tags, detail={"exception": repr(e)[:200]})
                        continue
                    judge_solve(ctx, A, b, xu, infu, tol=utol, cap=m - 1, prec=prec, kappa=kappa, site=site + ":tol_and_cap", tags=tags)
                x_prev = x
        if bi == 0 and spec["idx"] % 12 == 0:
            ctx.sample({"class": cls, "n": n, "kappa": kappa, "rhs": bname, "A": A, "b": b})


def _stagnation(spec, ctx, R):
    n, sig, rk = spec["n"], spec["sig"], spec["rank"]
    rng = gen.rng_for(spec["seed"], "c04stag", spec["idx"])
    u = refq.randq(rng, n, rk)
    v = refq.randq(rng, n, rk)
    A = refq.eye(n) + refq.matmul(u / refq.fro(u), refq.herm(v / refq.fro(v))) * sig
    b = refq.randq(rng, n, 1)
    kappa = embed.cond(A)
    ctx.distinct("stagnation", A, b)
    tags = ["identity_plus_large_rank%d" % rk, "rhs:generic"]
    for (tol, prec, sp) in ((1e-12, None, False), (1e-10, None, False), (1e-12, None, True), (1e-12, "left_lu", False)):
        site = f"solve[{prec or 'none'}{',sparse' if sp else ''}]:stagnation"
        try:
            x, inf = solve(R, A, b, tol=tol, prec=prec, sparse=sp)
        except Exception as e:
            ctx.check("M5_solves_within_n_cycles", False, site=site, tags=tags, detail={"exception": repr(e)[:200], "tol": tol})
            continue
        hist = [float(h[2]) for h in (inf.get("residual_history") or [])]
        if len(hist) > rk + 2 and prec is None:
            ctx.hit("stagnation:cycled_past_invariance")
        judge_solve(ctx, A, b, x, inf, tol=tol, cap=None, prec=prec, kappa=kappa, site=site, tags=tags)


def _alias_rhs(spec, ctx, R):
    """Argument relations: the right-hand side is a VIEW of the matrix (a column, a transposed row), both handed over as the caller's
    own objects; judged against independent copies taken before the call."""
    n, c = spec["n"], spec["c"]
    rng = gen.rng_for(spec["seed"], "c04alias", spec["idx"])
    G, _ = make_matrix(rng, "generic", n)
    for form in ("column_view", "row_view_transposed", "same_object_twice_solved"):
        A = G * c
        j = int(rng.integers(0, n))
        b = A[:, j:j + 1] if form != "row_view_transposed" else A[j:j + 1, :].T
        A_ref, b_ref = np.array(A, copy=True), np.array(b, copy=True)
        kappa = embed.cond(A_ref)
        floor = 1e3 * n * EPS * kappa
        for prec in (None, "left_lu"):
            site = f"solve[{prec or 'none'}]:rhs_is_{form}"
            tags = ["generic", f"scale={c:g}", "rhs:view_of_A"]
            try:
                S = R.solver.QGMRESSolver(tol=1e-10, preconditioner=prec, verbose=False)
                with np.errstate(all="ignore"):
                    x, inf = S.solve(A, b)
                    if form == "same_object_twice_solved":
                        x, inf = S.solve(A, b)
            except Exception as e:
                ctx.check("M5_solves_within_n_cycles", False, site=site, tags=tags, detail={"exception": repr(e)[:200]})
                continue
            ctx.check("input_unchanged", bool(np.array_equal(refq.fa(A), refq.fa(A_ref)) and np.array_equal(refq.fa(b), refq.fa(b_ref))), site=site, tags=tags)
            r = judge_solve(ctx, A_ref, b_ref, x, inf, tol=1e-10, cap=None, prec=prec, kappa=kappa, site=site, tags=tags)
            if r is not None:
                cfac = (1.0 + 1e-6) * (max(1.0, kappa) if prec == "left_lu" else 1.0)
                ctx.check("M5_solves_within_n_cycles", r, max(1e-10 * cfac, floor) + floor, site=site, tags=tags)
            A = np.array(A_ref, copy=True)
            b = A[:, j:j + 1] if form != "row_view_transposed" else A[j:j + 1, :].T
    ctx.hit("forms:rhs_view_of_matrix")
    # the same SparseQuaternionMatrix container solved again after its stored values were updated in place
    A = G * c
    Ssp = R.sparse_from_dense(A)
    bq = refq.randq(rng, n, 1) * c
    for step in ("first", "after_inplace_update", "after_second_update"):
        if step != "first":
            Ssp.real.data[...] = Ssp.real.data * 0.5
            Ssp.j.data[...] = -Ssp.j.data
            Ssp.real.setdiag(Ssp.real.diagonal() + 2.0 * c)
        A_now = refq.qa(np.stack([Ssp.real.toarray(), Ssp.i.toarray(), Ssp.j.toarray(), Ssp.k.toarray()], axis=-1))
        kappa = embed.cond(A_now)
        floor = 1e3 * n * EPS * kappa
        site = f"solve[none,sparse]:same_container:{step}"
        tags = ["generic", f"scale={c:g}", "sparse_container_history"]
        try:
            with np.errstate(all="ignore"):
                x, inf = R.solver.QGMRESSolver(tol=1e-10, verbose=False).solve(Ssp, bq)
        except Exception as e:
            ctx.check("M5_solves_within_n_cycles", False, site=site, tags=tags, detail={"exception": repr(e)[:200]})
            continue
        r = judge_solve(ctx, A_now, bq, x, inf, tol=1e-10, cap=None, prec=None, kappa=kappa, site=site, tags=tags)
        if r is not None:
            ctx.check("M5_solves_within_n_cycles", r, max(1e-10 * (1 + 1e-6), floor) + floor, site=site, tags=tags)
    ctx.hit("history:sparse_container_updated_in_place")


def _large(spec, ctx, R):
    """Systems larger than any plausible fixed workspace (32, 64): the Krylov space has to grow to the full dimension.  The weighted
    cyclic shift with right-hand side e_1 is the classical worst case - no residual reduction at all before cycle n."""
    n, cls = spec["n"], spec["cls2"]
    rng = gen.rng_for(spec["seed"], "c04large", spec["idx"])
    if cls == "cyclic_shift":
        c = np.zeros((n, n, 4))
        u = refq.fa(refq.unit_quats(rng, n))
        for i in range(n):
            c[(i + 1) % n, i] = u[i]
        A = refq.qa(c)
        e = np.zeros((n, 1, 4)); e[0, 0, 0] = 1.0
        b = refq.qa(e)
    else:
        A, _ = make_matrix(rng, "generic", n)
        b = refq.randq(rng, n, 1)
    kappa = embed.cond(A)
    floor = 1e3 * n * EPS * kappa
    tags = ["large_" + cls, "rhs:generic"]
    ctx.distinct("large", A, b)
    ctx.hit("size:large_system")
    tol = 1e-8
    site = "solve[none]:large"
    try:
        x, inf = solve(R, A, b, tol=tol)
    except Exception as e:
        ctx.check("M5_solves_within_n_cycles", False, site=site, tags=tags, detail={"exception": repr(e)[:200], "n": n})
        return
    r = judge_solve(ctx, A, b, x, inf, tol=tol, cap=None, prec=None, kappa=kappa, site=site, tags=tags)
    if r is None:
        return
    ctx.check("M5_solves_within_n_cycles", r, max(tol * (1 + 1e-6), floor) + floor, site=site, tags=tags,
              detail={"true_residual": r, "tol": tol, "iterations": inf.get("iterations"), "n": n, "converged": bool(inf.get("converged"))})
    xo = embed.solve(A, b)
    ctx.check("M6_same_solution", refq.fro(x - xo) / max(refq.fro(xo), 1e-300), kappa * (max(tol, floor) + floor) * 1.01, site=site + ":vs_oracle", tags=tags)


def _zero_rhs(ctx, R, A, b, tags):
    n = A.shape[0]
    for prec in (None, "left_lu"):
        for sp in (False, True):
            site = f"solve[{prec or 'none'}{',sparse' if sp else ''}]"
            try:
                x, inf = solve(R, A, b, prec=prec, sparse=sp)
            except Exception as e:
                ctx.check("zero_rhs", False, site=site, tags=tags + ["zero_rhs"], detail={"exception": repr(e)[:200]})
                continue
            ok = x.shape == (n, 1) and refq.is_finite(x) and refq.fro(x) == 0.0
            fin = all(math.isfinite(float(inf.get(k, 0.0))) for k in ("residual", "residual_true"))
            ctx.check("zero_rhs", ok and fin, site=site, tags=tags + ["zero_rhs"],
                      detail={"x_norm": refq.fro(x) if refq.is_finite(x) else "nan", "residual": repr(inf.get("residual"))})


def _scaling(spec, ctx, R):
    """The solution of (cA) x = c b does not depend on c."""
    n, c = spec["n"], spec["c"]
    rng = gen.rng_for(spec["seed"], "c04scal", spec["idx"])
    mcls = spec.get("mcls", "generic")
    A, _ = make_matrix(rng, mcls, n)
    if mcls == "identity_rank2_small":
        pass
    b = refq.randq(rng, n, 1)
    if mcls != "generic":
        b = b / refq.fro(b)              # ||b|| = 1: the scaled right-hand side has norm exactly c
    kappa = embed.cond(A)
    floor = 1e3 * n * EPS * kappa
    cb = spec.get("cb")
    if cb is not None:
        b = b * cb                       # the oracle solution scales with it; c stays 1
    ctx.distinct("scaling", A, b, c, mcls)
    xo = embed.solve(A, b)
    for tol in ((1e-6, 1e-10) if mcls == "generic" else (1e-10, 1e-12)):
        for prec in (None, "left_lu"):
            for sp in (False, True):
                site = f"solve[{prec or 'none'}{',sparse' if sp else ''}]"
                tags = [f"scale={c:g}"] + ([f"rhs_scale={cb:g}"] if cb is not None else []) + ([mcls] if mcls != "generic" else [])
                try:
                    x1, i1 = solve(R, A, b, tol=tol, prec=prec, sparse=sp)
                    xc, ic = solve(R, c * A, c * b, tol=tol, prec=prec, sparse=sp)
                except Exception as e:
                    ctx.check("M6_same_solution", False, site=site, tags=tags, detail={"exception": repr(e)[:200]})
                    continue
                cfac = (1.0 + 1e-6) * (max(1.0, kappa) if prec == "left_lu" else 1.0)
                judge_solve(ctx, c * A, c * b, xc, ic, tol=tol, cap=None, prec=prec, kappa=kappa, site=site, tags=tags)
                bound = kappa * (max(tol * cfac, floor) + floor) * 1.01
                if not (refq.is_finite(xc) and refq.is_finite(x1)):
                    ctx.check("M6_same_solution", False, site=site + ":scaled_vs_unscaled", tags=tags)
                    continue
                ctx.check("M6_same_solution", refq.fro(xc - x1) / refq.fro(xo), 2 * bound, site=site + ":scaled_vs_unscaled", tags=tags,
                          detail={"c": c, "tol": tol})
                ctx.check("M6_same_solution", refq.fro(xc - xo) / refq.fro(xo), bound, site=site + ":scaled_vs_oracle", tags=tags,
                          detail={"c": c, "tol": tol, "iterations": ic.get("iterations"), "reported": ic.get("residual")})
                r = rho(c * A, xc, c * b)
                ctx.check("M5_solves_within_n_cycles", r, max(tol * cfac, floor) + floor, site=site, tags=tags,
                          detail={"c": c, "tol": tol, "true_residual": r})
    ctx.sample({"scaling": c, "n": n, "kappa": kappa})


def _lu_failpoint(spec, ctx, R):
    """LU preconditioner failure: the quaternion_lu looked up by solve() raises its own zero-pivot error;
    the solver must fall back to the unpreconditioned iteration and still tell the truth."""
    n = spec["n"]
    rng = gen.rng_for(spec["seed"], "c04lufp", spec["idx"])
    A, _ = make_matrix(rng, "generic", n)
    b = refq.randq(rng, n, 1)
    kappa = embed.cond(A)
    floor = 1e3 * n * EPS * kappa
    ctx.distinct("lufp", A, b)
    mods = [m for m in R.all_loaded_repo_modules() if hasattr(m, "quaternion_lu")]
    saved = [(m, m.quaternion_lu) for m in mods]
    calls = {"n": 0}

    def failing_lu(*a, **k):
        calls["n"] += 1
        raise ValueError("Zero pivot encountered at position (0, 0)")

    x_ref, i_ref = solve(R, A, b, tol=1e-8, prec=None)
    try:
        for m in mods:
            m.quaternion_lu = failing_lu
        x, inf = solve(R, A, b, tol=1e-8, prec="left_lu")
    except Exception as e:
        ctx.check("lu_failure_falls_back", False, site="solve[left_lu]", tags=["lu_failpoint"], detail={"exception": repr(e)[:200]})
        return
    finally:
        for m, f in saved:
            m.quaternion_lu = f
    ctx.check("lu_failure_falls_back", calls["n"] >= 1, site="failpoint_reached")
    judge_solve(ctx, A, b, x, inf, tol=1e-8, cap=None, prec=None, kappa=kappa, site="solve[left_lu,lu_failed]", tags=["lu_failpoint"])
    ctx.check("lu_failure_falls_back", refq.is_finite(x) and np.array_equal(refq.fa(x), refq.fa(x_ref)), site="solve[left_lu,lu_failed]",
              tags=["lu_failpoint"], detail={"note": "must equal the unpreconditioned run bit for bit"})
    r = rho(A, x, b)
    ctx.check("M5_solves_within_n_cycles", r, max(1e-8 * (1 + 1e-6), floor) + floor, site="solve[left_lu,lu_failed]", tags=["lu_failpoint"])
    ctx.sample({"lu_failpoint": True, "n": n, "failpoint_calls": calls["n"]})


def run_case(spec, ctx, R):
    {"system": _system, "scaling": _scaling, "stagnation": _stagnation, "large": _large, "alias_rhs": _alias_rhs, "lu_failpoint": _lu_failpoint}[spec["kind"]](spec, ctx, R)


# --------------------------------------------------------------------------------------
# reach counters (sys.monitoring)
# --------------------------------------------------------------------------------------
_REACH = None


def setup(ctx, R):
    global _REACH
    S, U = R.solver, R.utils
    rc = reach.Reach(ctx)
    g = S.QGMRESSolver._GMRESQsparse
    rc.watch(reach.Locator(g, "gmres:lucky_breakdown", "ninf == ninf", locals_=("m", "j", "N")))
    rc.watch(reach.Locator(S.QGMRESSolver.solve, "gmres:lu_fallback", "Exception", kind="except"), index=0)
    rc.watch(reach.Locator(g, "gmres:bm_truncate", "bm_0.shape[0] > U0.shape[0]"))
    rc.watch(reach.Locator(g, "gmres:bm_pad", "bm_0.shape[0] > U0.shape[0]", which="else"))
    rc.watch(reach.Locator(g, "gmres:stop", "res < tol", locals_=("m",)))
    rc.watch(reach.Locator(U.UtriangleQsparse, "utriangle:zero_diagonal", "r > tol", which="else"))
    rc.start()
    _REACH = rc


def teardown(ctx, R):
    global _REACH
    if _REACH is not None:
        _REACH.stop()
        _REACH = None
