"""C03 Newton-Schulz solvers (DESIGN.md section 7, C03)."""
from __future__ import annotations

import numpy as np

from .. import gen, reach, repo
from ..oracle import embed, refq

ID = "C03"
LEVEL = "exploration"
RULE = ("A = U diag(s) V^H with oracle-made unitary factors: shapes 1..5 (quick) / 1..8 (thorough) tall, wide, square, 1xn, nx1; every "
        "rank 0..min(m,n) incl. the zero matrix; spectra simple / repeated / clustered / geometric (kappa <= 1e4) / scaled 1e-3..1e3. "
        "Damped solver for gamma in {1, .9, .5, .25, .1} (dense and SparseQuaternionMatrix input, with and without residual "
        "tracking) and third-order solver: the iterate returned for EVERY budget k = 0..K (K = 12 quick, 40 thorough) is compared with "
        "the spectral model V diag(t_k/s) U^H; the residual / covariance histories are recomputed by the oracle from the returned "
        "iterates; ||AXA-A|| non-increasing along the K-step run; tolerance-stopped runs (tol 1e-4, 1e-6, 1e-8) within tol/s_min^2 of "
        "A^+; Penrose residuals small once the model has converged. distinct = (input digest, solver, gamma, budget); non-trivial = "
        "rank >= 1")
ASSUMPTIONS = ["trajectory bound c*eps*(k+2)*n*kappa*||model_k|| with c = 30 (calibrated: the iteration is self-correcting, the measured "
               "deviation is <= 0.025*eps*(k+2)*n*kappa over kappa = 10..1e6, gamma in {1,.5}, tracked and untracked runs); the third-order "
               "solver (3T - 3TAT + T(AT)^2, cancellation) deviates like 0.012*eps*(k+2)*n*kappa^2 and is judged with kappa^2",
               "for rank-deficient input rounding noise in the null space is multiplied by (1+gamma) (resp. 3) per step: deviations "
               "within the envelope c*eps*rho^k are attributed to the open finding F-C03-b, larger ones are new violations"]
SHARDS = {"quick": 12, "thorough": 16}
TIMEOUT = {"quick": 900, "thorough": 5400}
DECIDING = ["finite", "trajectory", "monotone_AXA", "history_lengths", "history_truthful", "covariance_truthful", "stop_accuracy",
            "limit_penrose", "dense_sparse_identical", "input_unchanged"]
MUST_REACH = ["ns:left_update", "ns:right_update", "ns:stop_residuals", "ns:stop_covariance", "ns:sparse_conversion",
              "class:rank_deficient", "class:zero_matrix", "stopped_before_cap"]

C = 1e3
CT = 30.0      # trajectory constant: measured worst deviation / (eps (k+2) n kappa ||model||) = 0.025 over kappa 10..1e6
EPS = refq.EPS
GAMMAS = [1.0, 0.9, 0.5, 0.25, 0.1]

_REACH = None


def setup(ctx, R):
    global _REACH
    _REACH = reach.Reach(ctx)
    f = R.solver.NewtonSchulzPseudoinverse.compute
    _REACH.watch(reach.Locator(f, "ns:left_update", "m >= n"))
    _REACH.watch(reach.Locator(f, "ns:right_update", "m >= n", which="orelse"))
    _REACH.watch(reach.Locator(f, "ns:stop_residuals", "max_res < self.tol"), index=-1)
    _REACH.watch(reach.Locator(f, "ns:stop_covariance", "cov_norm < self.tol"))
    _REACH.watch(reach.Locator(f, "ns:sparse_conversion", "isinstance(A, SparseQuaternionMatrix)"))
    _REACH.start()


def teardown(ctx, R):
    if _REACH:
        _REACH.stop()


def cases(tier, seed):
    out = []
    maxd = 5 if tier == "quick" else 8
    K = 12 if tier == "quick" else 40
    idx = 0
    shapes = [(m, n) for m in range(1, maxd + 1) for n in range(1, maxd + 1)]
    for (m, n) in shapes:
        for r in range(0, min(m, n) + 1):
            reps = 2 if tier == "quick" else 3
            for k in range(reps):
                out.append({"kind": "traj", "cls": "rank_deficient" if 0 < r < min(m, n) else ("zero" if r == 0 else "full_rank"),
                            "m": m, "n": n, "r": r, "K": K, "idx": idx, "seed": seed})
                idx += 1
    # larger and extreme-aspect shapes with a shorter budget sweep
    big = [(12, 7), (7, 12), (17, 3), (3, 18), (20, 20), (33, 4)] if tier == "quick" else [(12, 7), (7, 12), (10, 10), (16, 3), (3, 16), (20, 2), (2, 20), (14, 14), (18, 9), (9, 18), (24, 4), (33, 33), (17, 17), (40, 6), (6, 65)]
    for (m, n) in big:
        for r in sorted({min(m, n), min(m, n) - 1, 1}):
            for k in range(1 if tier == "quick" else 2):
                out.append({"kind": "traj", "cls": "rank_deficient" if 0 < r < min(m, n) else "full_rank", "m": m, "n": n, "r": r,
                            "K": 8 if tier == "quick" else 14, "idx": idx, "seed": seed})
                idx += 1
    for k in range(60 if tier == "quick" else 500):
        out.append({"kind": "stop", "cls": "stop", "idx": idx, "seed": seed, "maxd": maxd})
        idx += 1
    # tolerance placed INSIDE the window between the two residuals of one iterate (see _stop, "tuned")
    for k in range(36 if tier == "quick" else 300):
        out.append({"kind": "stop", "cls": "stop_tuned_tolerance", "idx": idx, "seed": seed, "maxd": maxd, "tuned": True})
        idx += 1
    for k_, pat in enumerate(["pure_imag", "real_only", "axis_i", "axis_j", "axis_k", "real_j", "real_k", "i_k", "j_k", "complex_subfield", "real_i_j", "all",
                              "pure_imag+masked", "real_j+masked", "j_k+masked", "all+masked",
                              "struct:herm_psd", "struct:herm_indef", "struct:unitary", "struct:scaled_unitary", "struct:diag", "struct:upper_tri", "struct:cross", "struct:arrowhead"]):
        for rep_ in range(2 if tier == "quick" else 12):
            out.append({"kind": "patterns", "cls": "component_patterns", "pattern": pat, "idx": idx, "seed": seed})
            idx += 1
    # long runs on ill-conditioned full-rank input (enough iterations for the smallest singular directions to converge)
    for k in range(6 if tier == "quick" else 24):
        out.append({"kind": "longrun", "cls": "longrun_two_clusters", "idx": idx, "seed": seed, "maxd": maxd,
                    "gap": [1e-10, 1e-8, 1e-10, 1e-12, 1e-9, 1e-10][k % 6], "gamma": [1.0, 1.0, 0.9, 1.0, 1.0, 0.5][k % 6]})
        idx += 1
    for k in range(12 if tier == "quick" else 96):
        out.append({"kind": "longrun", "cls": "longrun_ill_conditioned", "idx": idx, "seed": seed, "maxd": maxd})
        idx += 1
    return out


def run_case(spec, ctx, R):
    {"traj": _traj, "stop": _stop, "longrun": _longrun, "patterns": _patterns}[spec["kind"]](spec, ctx, R)


def _patterns(spec, ctx, R):
    """Operands whose entries live on a SUBSET of the four components (purely imaginary, one axis, two axes, real only, complex subfield,
    sparse masks per component), dense and as SparseQuaternionMatrix (whose component matrices then have no stored entries at all): the
    iterates are those of the documented recurrence X0 = A^H/||A||_F^2, X <- (1+gamma) X - gamma X A X (resp. the third-order map), evaluated
    by the reference algebra on the same matrix."""
    S = R.solver
    rng = gen.rng_for(spec["seed"], "c03pat", spec["idx"])
    m, n = (int(x) for x in rng.integers(1, 6, size=2))
    pat = spec["pattern"]
    if pat.startswith("struct:"):
        # square structured operands (Hermitian definite / indefinite, unitary and scaled unitary, diagonal, triangular): the same recurrence
        n = m = max(2, min(m, n))
        sc_ = pat.split(":", 1)[1]
        if sc_ in ("cross", "arrowhead"):
            # mass concentrated in one full row AND one full column (cross) / first row, first column and the diagonal (arrowhead), 9 .. 12 rows:
            # ||A||_1 ||A||_inf is then far above ||A||_F^2 - the documented start is A^H / ||A||_F^2 whatever other norms suggest
            n = m = int(rng.integers(9, 13))
            cc_ = rng.standard_normal((n, n, 4)) * 0.02
            r_, c_ = (int(rng.integers(0, n)), int(rng.integers(0, n))) if sc_ == "cross" else (0, 0)
            cc_[r_, :] = refq.fa(refq.unit_quats(rng, n)); cc_[:, c_] = refq.fa(refq.unit_quats(rng, n))
            if sc_ == "arrowhead":
                cc_[np.arange(n), np.arange(n), 0] += 2.0
            As_ = refq.qa(cc_)
        else:
            As_ = gen.structured(rng, sc_.replace("scaled_", ""), n, n)
        if sc_ == "scaled_unitary":
            As_ = As_ * 2.5
        if sc_ in ("upper_tri", "diag"):
            As_ = As_ + refq.diagq(np.full(n, 3.0), n, n)
    c = rng.standard_normal((m, n, 4))
    keep = {"struct": [0, 1, 2, 3], "pure_imag": [1, 2, 3], "real_only": [0], "axis_i": [1], "axis_j": [2], "axis_k": [3], "real_j": [0, 2], "real_k": [0, 3], "i_k": [1, 3],
            "j_k": [2, 3], "complex_subfield": [0, 1], "real_i_j": [0, 1, 2], "all": [0, 1, 2, 3]}[pat.split("+")[0].split(":")[0]]
    mask = np.zeros(4); mask[keep] = 1.0
    c = c * mask
    if pat.endswith("+masked"):
        c = c * (rng.random((m, n, 4)) < 0.6)            # different sparsity pattern in every component
        c[0, 0, keep[0]] = 1.5
    A = refq.qa(c) if not pat.startswith("struct:") else As_
    if embed.rank(A, rtol=1e-9) < min(m, n):
        ctx.skip("trajectory", "component-pattern operand happens to be rank-deficient")
        return
    kap = embed.cond(A)
    gamma = float(rng.choice(GAMMAS))
    K = 5
    nrm2 = refq.fro(A) ** 2
    AH = refq.herm(A)
    for which in ("damped_sparse", "damped_dense", "third_dense"):
        third = which == "third_dense"
        X = AH * (1.0 / nrm2)
        ref = [X]
        for k in range(K):
            XA = refq.matmul(X, A)
            if third:
                XAX = refq.matmul(XA, X)
                X = X * 3.0 - XAX * 3.0 + refq.matmul(XA, XAX)
            else:
                X = X * (1.0 + gamma) - refq.matmul(XA, X) * gamma
            ref.append(X)
        site = f"patterns:{which}"
        tags = ["pattern:" + pat]
        for k in (0, 1, K):
            try:
                if third:
                    out = S.HigherOrderNewtonSchulzPseudoinverse(max_iter=k, tol=0.0).compute(A.copy())
                else:
                    arg = R.sparse_from_dense(A) if which == "damped_sparse" else A.copy()
                    out = S.NewtonSchulzPseudoinverse(gamma=gamma, max_iter=k, tol=0.0, compute_residuals=bool(spec["idx"] % 2)).compute(arg)
                Xk = out[0]
            except Exception as e:
                ctx.check("unexpected_exception", False, site=site, tags=tags, detail={"exception": repr(e)[:200], "k": k, "shape": [m, n]})
                continue
            ctx.distinct(A, which, gamma, k)
            if getattr(Xk, "shape", None) != (n, m) or not refq.is_finite(Xk):
                ctx.check("finite", False, site=site, tags=tags, detail={"k": k})
                continue
            nm = refq.fro(ref[k])
            ctx.check("trajectory", refq.fro(Xk - ref[k]), CT * EPS * (k + 2) * max(m, n) * (kap * kap if third else kap) * nm + 1e-300, site=site, tags=tags,
                      detail={"k": k, "shape": [m, n], "gamma": gamma, "kappa": kap})
            if not third and k >= 1 and spec["idx"] % 2:
                pr = penrose(A, Xk)
                rep = out[1]
                nX, nA = refq.fro(Xk), refq.fro(A)
                hb = {"AXA-A": nA * nA * nX, "XAX-X": nX * nX * nA, "AX-herm": nA * nX, "XA-herm": nA * nX}
                worst = max(abs(float(rep[key][k - 1]) - pr[key]) / (C * EPS * max(m, n) * hb[key] + 1e-300) for key in pr)
                ctx.check("history_truthful", worst, 1.0, site=site, tags=tags, detail={"k": k})
    ctx.hit("inputs:component_patterns")


# ---- spectral model -----------------------------------------------------------------------

def model_iterates(U, V, s, gamma, K, third=False, norm2=None):
    """X_k = V diag(t_k/s) U^H for k = 0..K on the non-zero singular values (X_k = 0 for rank 0)."""
    s = np.asarray(s, dtype=float)
    r = len(s)
    n, m = V.shape[0], U.shape[0]
    if r == 0:
        return [refq.zeros(n, m) for _ in range(K + 1)], [np.zeros(0)] * (K + 1)
    t = s ** 2 / (norm2 if norm2 is not None else float(np.sum(s ** 2)))
    Vr, UrH = V[:, :r], refq.herm(U[:, :r])
    Xs, ts = [], []
    for k in range(K + 1):
        Xs.append(refq.matmul(Vr * (t / s)[None, :], UrH))
        ts.append(t.copy())
        t = 1.0 - (1.0 - t) ** 3 if third else t * (1.0 + gamma * (1.0 - t))
    return Xs, ts


def penrose(A, X):
    AX, XA = refq.matmul(A, X), refq.matmul(X, A)
    return {"AXA-A": refq.fro(refq.matmul(AX, A) - A), "XAX-X": refq.fro(refq.matmul(XA, X) - X),
            "AX-herm": refq.fro(AX - refq.herm(AX)), "XA-herm": refq.fro(XA - refq.herm(XA))}


def _make(rng, m, n, r, idx):
    kind = ["simple", "geometric", "equal", "cluster", "repeat2", "geometric_hard"][idx % 6]
    if kind == "geometric_hard":
        s = gen.spectrum("geometric", r, rng, 1e4)
    elif kind == "geometric":
        s = gen.spectrum("geometric", r, rng, 1e2)
    else:
        s = gen.spectrum(kind, r, rng, 10.0)
    scale = [1.0, 1.0, 1e-3, 1e3, 1.0][idx % 5]
    s = s * scale
    A, U, V = refq.with_singular_values(rng, m, n, np.concatenate([s, np.zeros(min(m, n) - r)]))
    if r == 0:
        A = refq.zeros(m, n)
    return A, U, V, s, kind


def _finite_all(X, res, cov):
    ok = refq.is_finite(X)
    if isinstance(res, dict):
        ok = ok and all(np.all(np.isfinite(np.asarray(v, dtype=float))) for v in res.values())
    if cov is not None:
        ok = ok and bool(np.all(np.isfinite(np.asarray(cov, dtype=float))))
    return bool(ok)


class _Quiet:
    """The same solver object with its prints captured."""

    def __init__(self, inner):
        self.inner = inner

    def compute(self, A):
        with repo.quiet():
            return self.inner.compute(A)


def _traj(spec, ctx, R):
    S = R.solver
    m, n, r, K = spec["m"], spec["n"], spec["r"], spec["K"]
    rng = gen.rng_for(spec["seed"], "c03traj", spec["idx"])
    A, U, V, s, kind = _make(rng, m, n, r, spec["idx"])
    A = gen.vary(A, spec["idx"])
    N = min(m, n)
    deficient = r < N
    if r == 0:
        ctx.hit("class:zero_matrix")
    elif deficient:
        ctx.hit("class:rank_deficient")
    nrmA = refq.fro(A)
    kap = float(s[0] / s[-1]) if r else 1.0
    A0 = refq.fa(A).copy()
    base_tags = [kind] + (["rank_deficient"] if deficient and r > 0 else []) + (["zero_matrix"] if r == 0 else [])
    configs = [("damped", g, True) for g in ([GAMMAS[spec["idx"] % 5], 1.0] if spec["idx"] % 5 else [1.0, 0.5])]
    configs.append(("damped", GAMMAS[(spec["idx"] + 2) % 5], False))
    configs.append(("third", None, True))
    if spec["idx"] % 13 == 0:
        ctx.sample({"shape": [m, n], "rank": r, "svals": s, "spectrum": kind, "configs": [str(c) for c in configs], "budgets": f"0..{K}"})
    for (which, gamma, track) in configs:
        third = which == "third"
        rho = 3.0 if third else 1.0 + gamma
        site = "HigherOrderNewtonSchulzPseudoinverse" if third else f"NewtonSchulzPseudoinverse[gamma={gamma},residuals={track}]"
        Xm, ts = model_iterates(U, V, s, gamma, K, third=third, norm2=nrmA * nrmA if r else None)

        def solver(k, tol=0.0):
            # call form on a rotating subset: verbose=True (prints only; judged by the same clauses)
            vb = (spec["idx"] + k) % 6 == 0
            if vb:
                ctx.hit("callform:verbose_true")
            if third:
                obj = S.HigherOrderNewtonSchulzPseudoinverse(max_iter=k, tol=tol, verbose=vb)
            else:
                obj = S.NewtonSchulzPseudoinverse(gamma=gamma, max_iter=k, tol=tol, compute_residuals=track, verbose=vb)
            return _Quiet(obj) if vb else obj

        def env(k):
            """Relative size of amplified null-space rounding noise after k steps (rank-deficient input only)."""
            return C * EPS * (rho ** k) if (deficient or r == 0) else 0.0

        def tg(k, value, bound, scale):
            t = list(base_tags)
            if (deficient and r > 0) and not (np.isfinite(value) and value <= bound):
                e = env(k)
                if e >= 1e-3 or (np.isfinite(value) and value <= bound + e * scale):
                    t.append("null_space_noise_amplified")
            return t

        # the K-step run (single run: histories)
        ctx.distinct(A, site, K, nontrivial=r >= 1)
        try:
            XK, resK, covK = solver(K).compute(A)
        except Exception as e:
            ctx.check("unexpected_exception", False, site=site, tags=base_tags, detail={"exception": repr(e), "shape": [m, n], "rank": r})
            continue
        finK = _finite_all(XK, resK, None if third else covK)
        ctx.check("finite", finK, site=site, tags=tg(K, float("inf"), 0.0, 1.0) if not finK else base_tags,
                  detail={"shape": [m, n], "rank": r, "K": K})
        if not finK:
            continue
        nres = len(resK["AXA-A"])
        exp_len = K if (third or track) else 0
        ok_len = all(len(resK[k2]) == exp_len for k2 in ("AXA-A", "XAX-X", "AX-herm", "XA-herm")) and (third or len(covK) == K)
        ctx.check("history_lengths", ok_len, site=site, tags=base_tags,
                  detail={"K": K, "len_res": nres, "len_cov": None if third else len(covK)})
        # monotone ||AXA - A||
        if exp_len:
            rr = np.asarray(resK["AXA-A"], dtype=float)
            floor = C * EPS * max(m, n) * kap * nrmA + 1e-300
            worst, wk = 0.0, 0
            for k in range(len(rr) - 1):
                inc = rr[k + 1] - rr[k] * (1.0 + 1e-10)
                if inc > worst:
                    worst, wk = float(inc), k + 1
            ctx.check("monotone_AXA", worst, floor, site=site, tags=tg(wk + 1, worst, floor, nrmA), detail={"step": wk, "series": rr[:wk + 2]})
        # every budget k
        prev_X = None
        for k in range(0, K + 1):
            try:
                Xk, resk, covk = solver(k).compute(A)
            except Exception as e:
                ctx.check("unexpected_exception", False, site=site, tags=base_tags, detail={"exception": repr(e), "k": k})
                break
            if not refq.is_finite(Xk):
                ctx.check("finite", False, site=site, tags=tg(k, float("inf"), 0.0, 1.0), detail={"k": k})
                break
            ctx.distinct(A, site, k, nontrivial=r >= 1)
            mk = Xm[k]
            nm = max(refq.fro(mk), 1e-300 if r else 0.0)
            tb = CT * EPS * (k + 2) * max(m, n) * (kap * kap if third else kap) * nm + 1e-300
            dev = refq.fro(Xk - mk)
            ctx.check("trajectory", dev, tb, site=site, tags=tg(k, dev, tb, max(nm, refq.fro(Xm[0]))),
                      detail={"k": k, "shape": [m, n], "rank": r, "t_k": ts[k]})
            # histories of the K-run are the true values of the iterates returned for budget k
            nX = refq.fro(Xk)
            if exp_len and k >= 1:
                pr = penrose(A, Xk)
                hb = {"AXA-A": nrmA * nrmA * nX, "XAX-X": nX * nX * nrmA, "AX-herm": nrmA * nX, "XA-herm": nrmA * nX}
                worst, wkey = 0.0, None
                for key in pr:
                    b = C * EPS * max(m, n) * hb[key] + 1e-300
                    d = abs(float(resK[key][k - 1]) - pr[key]) / b
                    if d > worst:
                        worst, wkey = d, key
                ctx.check("history_truthful", worst, 1.0, site=site, tags=tg(k, float("inf") if worst > 1 else 0.0, 0.0, 1.0) if worst > 1 else base_tags,
                          detail={"k": k, "key": wkey, "reported": {q: resK[q][k - 1] for q in pr}, "oracle": pr})
                same_len = all(len(resk[q]) == k for q in pr)
                ctx.check("history_lengths", same_len, site=site + ":budget_run", tags=base_tags, detail={"k": k})
            if not third and k < K:
                # covariances[k] = deviation of the iterate BEFORE update k+1, i.e. of X_k
                I = refq.eye(n if m >= n else m)
                cv = refq.fro((refq.matmul(Xk, A) if m >= n else refq.matmul(A, Xk)) - I)
                cb = C * EPS * max(m, n) * (nrmA * nX + 1.0) + 1e-300
                ctx.check("covariance_truthful", abs(float(covK[k]) - cv), cb, site=site,
                          tags=tg(k, abs(float(covK[k]) - cv), cb, 1.0), detail={"k": k, "reported": covK[k], "oracle": cv})
            prev_X = Xk
        # limit: once the model has converged the iterate satisfies the Penrose equations
        if r >= 1 and float(np.max(np.abs(ts[K] - 1.0))) <= 1e-9:
            pr = penrose(A, XK)
            nX = refq.fro(XK)
            rel = max(pr["AXA-A"] / nrmA, pr["XAX-X"] / max(nX, 1e-300), pr["AX-herm"], pr["XA-herm"])
            lb = 1e-7 + C * EPS * max(m, n) * kap * kap
            ctx.check("limit_penrose", rel, lb, site=site, tags=tg(K, rel, lb, 1.0), detail={"K": K, "penrose": pr})
            Ap = refq.matmul(V[:, :r] * (1.0 / s)[None, :], refq.herm(U[:, :r]))
            d = refq.fro(XK - Ap) / refq.fro(Ap)
            ctx.check("limit_penrose", d, lb, site=site + ":distance_to_pinv", tags=tg(K, d, lb, 1.0), detail={"K": K})
        # ONE solver object used for several problems in a row (a solver is configured once and applied many times): every call returns
        # the iterate and the histories of THAT call only - same length and same values as a fresh solver's
        if spec["idx"] % 3 == 0:
            kk2 = min(K, 5)
            try:
                obj = solver(kk2)
                other = refq.randq(rng, n, m) if (m, n) != (1, 1) else refq.randq(rng, 2, 1)
                obj.compute(other)                                     # an unrelated problem first
                r1 = obj.compute(gen.layout(A, "C"))
                r2 = obj.compute(gen.layout(A, "C"))
                rf = solver(kk2).compute(gen.layout(A, "C"))

                def hist_of(rr):
                    return (rr[1], rr[2]) if not third else (rr[1], None)
                ok_all = True
                for rr in (r1, r2):
                    hres, hcov = hist_of(rr)
                    fres, fcov = hist_of(rf)
                    ok_all &= all(len(hres[key]) == len(fres[key]) and np.allclose(hres[key], fres[key], rtol=1e-9, atol=0.0) for key in fres)
                    if fcov is not None:
                        ok_all &= len(hcov) == len(fcov) and bool(np.allclose(hcov, fcov, rtol=1e-9, atol=0.0))
                    ok_all &= bool(np.array_equal(refq.fa(rr[0]), refq.fa(rf[0])))
                ctx.hit("history:solver_object_reused")
                ctx.check("history_lengths", bool(ok_all), site=site + ":reused_solver_object", tags=base_tags, detail={"budget": kk2, "shape": [m, n]})
            except Exception as e:
                ctx.check("history_lengths", False, site=site + ":reused_solver_object", tags=base_tags, detail={"exception": repr(e)[:200]})
        # dense vs sparse input (damped solver only)
        if not third and track and spec["idx"] % 2 == 0:
            kk = min(K, 6)
            try:
                As = R.sparse_from_dense(A)
                Xs, ress, covs = solver(kk).compute(As)
                Xd, resd, covd = solver(kk).compute(gen.layout(A, "C"))
                # same iterate and same histories to rounding (a sparse-native implementation need not be bitwise identical)
                nm = max(refq.fro(Xd), 1e-300)
                dev = refq.fro(Xs - Xd) / (CT * EPS * (kk + 2) * max(m, n) * kap * nm + 1e-300)
                hist = max([abs(a - b) / (C * EPS * max(m, n) * (abs(b) + nrmA * nrmA * nm + 1.0)) for key in resd for a, b in zip(ress[key], resd[key])]
                           + [abs(a - b) / (C * EPS * max(m, n) * (abs(b) + nrmA * nm + 1.0)) for a, b in zip(covs, covd)] + [0.0])
                ok_len = all(len(ress[key]) == len(resd[key]) for key in resd) and len(covs) == len(covd)
                val = max(dev, hist) if ok_len else float("inf")
            except Exception as e:
                val = float("inf")
            ctx.check("dense_sparse_identical", val, 1.0, site=site, tags=tg(kk, val, 1.0, 1.0) if val > 1 else base_tags)
            # the SAME sparse container solved again after its stored entries were updated in place (a regularisation sweep): the run
            # has to describe the container's CURRENT entries - compared with a run on a dense copy of them
            try:
                As.real.data[...] = As.real.data * 0.5 + 0.25
                As.k.data[...] = -As.k.data
                if As.real.shape[0] and As.real.shape[1]:
                    As.real.setdiag(As.real.diagonal() + 1.5)
                Anow = refq.qa(np.stack([As.real.toarray(), As.i.toarray(), As.j.toarray(), As.k.toarray()], axis=-1))
                Xs2, ress2, covs2 = solver(kk).compute(As)
                Xd2, resd2, covd2 = solver(kk).compute(Anow)
                nm2 = max(refq.fro(Xd2), 1e-300)
                kap2 = embed.cond(Anow) if min(Anow.shape) and refq.fro(Anow) > 0 else 1.0
                dev2 = refq.fro(Xs2 - Xd2) / (CT * EPS * (kk + 2) * max(m, n) * min(kap2, 1e12) * nm2 + 1e-300)
                ok_len2 = all(len(ress2[key]) == len(resd2[key]) for key in resd2) and len(covs2) == len(covd2)
                ctx.hit("history:sparse_container_updated_in_place")
                ctx.check("dense_sparse_identical", dev2 if ok_len2 else float("inf"), 1.0, site=site + ":same_container_after_inplace_update", tags=base_tags,
                          detail={"shape": [m, n], "budget": kk})
            except Exception as e:
                ctx.check("dense_sparse_identical", False, site=site + ":same_container_after_inplace_update", tags=base_tags, detail={"exception": repr(e)[:200]})
    ctx.check("input_unchanged", np.array_equal(refq.fa(A), A0), site="all", tags=base_tags)


def _stop(spec, ctx, R):
    """Tolerance-stopped runs: distance to the pseudoinverse <= tol / s_min^2."""
    S = R.solver
    rng = gen.rng_for(spec["seed"], "c03stop", spec["idx"])
    m, n = (int(x) for x in rng.integers(1, spec["maxd"] + 1, size=2))
    N = min(m, n)
    r = N if spec["idx"] % 3 else int(rng.integers(1, N + 1))
    kap = float(rng.choice([1.0, 3.0, 10.0, 30.0]))
    smin = float(rng.choice([0.2, 1.0, 2.0, 5.0]))
    s = np.geomspace(kap, 1.0, r) * smin if r > 1 else np.array([smin])
    A, U, V = refq.with_singular_values(rng, m, n, np.concatenate([s, np.zeros(N - r)]))
    Ap = refq.matmul(V[:, :r] * (1.0 / s)[None, :], refq.herm(U[:, :r]))
    tol = float(rng.choice([1e-4, 1e-6, 1e-8]))
    which = ["damped_res", "damped_cov", "third"][spec["idx"] % 3]
    gamma = float(rng.choice(GAMMAS))
    if spec.get("tuned"):
        # The tolerance is TUNED to the run: with the spectral model t_k of this matrix, pick an iterate k* whose distance to A^+ is still
        # 1e-2..1e-7 and set tol = 2 ||X AX - X||_F(k*) (the OTHER Penrose residual).  For s_min > 1 that lies below ||A X A - A||_F(k*), so
        # the documented criterion does not stop there; a stop decided on any residual that scales like 1/s instead of s does, and returns an
        # iterate outside tol / s_min^2.  (Fixed tolerances almost never fall into this window: the third-order map cubes the error per step.)
        which = ["third", "damped_res"][spec["idx"] % 2]
        r = N
        smin = float(rng.choice([3.0, 5.0, 8.0]))
        s = np.geomspace(kap, 1.0, r) * smin if r > 1 else np.array([smin])
        A, U, V = refq.with_singular_values(rng, m, n, s)
        Ap = refq.matmul(V[:, :r] * (1.0 / s)[None, :], refq.herm(U[:, :r]))
        t = s * s / float(np.sum(s * s))
        tol = None
        for k in range(400):
            dist = float(np.sqrt(np.sum(((t - 1.0) / s) ** 2)))
            xax = float(np.sqrt(np.sum((t * (t - 1.0) / s) ** 2)))
            axa = float(np.sqrt(np.sum((s * (t - 1.0)) ** 2)))
            if 1e-7 <= dist <= 1e-2 and xax > 0 and 2.0 * xax < axa and dist > 2.0 * (2.0 * xax) / s[-1] ** 2:
                tol = 2.0 * xax
                break
            t = (1.0 - (1.0 - t) ** 3) if which == "third" else t * (1.0 + gamma * (1.0 - t))
        if tol is None:
            ctx.skip("stop_accuracy", "no iterate of the model falls into the tuned-tolerance window")
            return
        ctx.hit("stop:tolerance_tuned_between_the_two_residuals")
    cap = 400
    if which == "third":
        sol = S.HigherOrderNewtonSchulzPseudoinverse(max_iter=cap, tol=tol)
        site = "HigherOrderNewtonSchulzPseudoinverse:stop"
    else:
        sol = S.NewtonSchulzPseudoinverse(gamma=gamma, max_iter=cap, tol=tol, compute_residuals=(which == "damped_res"))
        site = f"NewtonSchulzPseudoinverse[residuals={which == 'damped_res'}]:stop"
    ctx.distinct(A, site, gamma, tol)
    try:
        X, res, cov = sol.compute(A)
    except Exception as e:
        ctx.check("unexpected_exception", False, site=site, detail={"exception": repr(e)})
        return
    iters = len(cov)
    tags = [which]
    if which == "damped_cov":
        tags.append("cov_only_stop")
        if s[-1] > 1.0:
            tags.append("cov_only_stop&s_min>1")
    if r < N:
        tags.append("rank_deficient")
    if not refq.is_finite(X):
        ctx.check("finite", False, site=site, tags=tags + (["null_space_noise_amplified"] if r < N else []), detail={"iters": iters})
        return
    if iters >= cap:
        ctx.skip("stop_accuracy", "did not stop before the cap")
        return
    ctx.hit("stopped_before_cap")
    d = refq.fro(X - Ap)
    b = tol / (s[-1] ** 2) * (1.0 + 1e-6) + C * EPS * max(m, n) * kap * refq.fro(Ap)
    t2 = list(tags)
    if r < N and not d <= b:
        rho = 3.0 if which == "third" else 1.0 + gamma
        if C * EPS * rho ** iters >= 1e-3 or d <= b + C * EPS * rho ** iters * refq.fro(Ap):
            t2.append("null_space_noise_amplified")
    ctx.check("stop_accuracy", d, b, site=site, tags=t2,
              detail={"shape": [m, n], "rank": r, "svals": s, "tol": tol, "gamma": gamma, "iterations": iters, "distance": d})
    if spec["idx"] % 17 == 0:
        ctx.sample({"kind": "stop", "shape": [m, n], "svals": s, "tol": tol, "solver": which, "gamma": gamma, "iterations": iters,
                    "distance_to_pinv": d, "bound": b})


def _longrun(spec, ctx, R):
    """Ill-conditioned full-rank input, budgets up to full convergence, tracked and untracked runs, selected budgets."""
    S = R.solver
    rng = gen.rng_for(spec["seed"], "c03long", spec["idx"])
    m, n = (int(x) for x in rng.integers(2, spec["maxd"] + 1, size=2))
    r = min(m, n)
    kap = float([1e4, 1e6, 1e5, 1e3][spec["idx"] % 4])
    s = np.geomspace(kap, 1.0, r) * float(rng.choice([1e-3, 1.0, 1e3]))
    if r == 1:
        kap = 1.0
    gap_ = spec.get("gap")
    if gap_:
        # TWO CLUSTERS: singular values 1 .. 0.5 and one far below them (1e-8, 1e-10): while the large ones sit at the rounding floor the small
        # one still has t ~ 1e-20 .. 1e-16 and changes every monitored norm by less than an ulp per step - yet it must keep doubling
        m, n = max(m, 3), max(n, 3)
        r = min(m, n)
        kap = 1.0 / gap_
        s = np.concatenate([np.linspace(1.0, 0.5, r - 1), [gap_]])
        ctx.hit("spectrum:two_clusters_wide_gap")
    A, U, V = refq.with_singular_values(rng, m, n, s)
    nrmA = refq.fro(A)
    gamma = float(rng.choice([1.0, 0.5])) if not gap_ else float(spec.get("gamma", 1.0))
    third = spec["idx"] % 5 == 4 and not gap_
    rate = 1.58 if third else (1.0 if gamma == 1.0 else 0.58)
    K = int(np.ceil(np.log2(kap * kap * r) / rate)) + 10
    Xm, ts = model_iterates(U, V, s, gamma, K, third=third, norm2=nrmA * nrmA)
    ks = sorted(set([1, 2, K // 4, K // 2, (3 * K) // 4, K - 1, K]))
    Ap = refq.matmul(V[:, :r] * (1.0 / s)[None, :], refq.herm(U[:, :r]))
    ctx.distinct(A, "longrun", gamma, third)
    for track in ((True,) if third else (True, False)):
        site = ("HigherOrderNewtonSchulzPseudoinverse" if third else f"NewtonSchulzPseudoinverse[gamma={gamma},residuals={track}]") + ":longrun"
        tags = [f"kappa={kap:g}"]

        def mk(k):
            return S.HigherOrderNewtonSchulzPseudoinverse(max_iter=k, tol=0.0) if third else \
                S.NewtonSchulzPseudoinverse(gamma=gamma, max_iter=k, tol=0.0, compute_residuals=track)
        try:
            XK, resK, covK = mk(K).compute(A)
        except Exception as e:
            ctx.check("unexpected_exception", False, site=site, tags=tags, detail={"exception": repr(e)})
            continue
        if not _finite_all(XK, resK, None if third else covK):
            ctx.check("finite", False, site=site, tags=tags)
            continue
        for k in ks:
            Xk = XK if k == K else mk(k).compute(A)[0]
            nm = refq.fro(Xm[k])
            dev = refq.fro(Xk - Xm[k])
            ctx.check("trajectory", dev, CT * EPS * (k + 2) * max(m, n) * (kap * kap if third else kap) * nm + 1e-300, site=site, tags=tags,
                      detail={"k": k, "K": K, "shape": [m, n], "kappa": kap})
            if not third and k < K:
                I = refq.eye(n if m >= n else m)
                cv = refq.fro((refq.matmul(Xk, A) if m >= n else refq.matmul(A, Xk)) - I)
                cb = C * EPS * max(m, n) * (nrmA * refq.fro(Xk) + 1.0) + 1e-300
                ctx.check("covariance_truthful", abs(float(covK[k]) - cv), cb, site=site, tags=tags, detail={"k": k, "reported": covK[k], "oracle": cv})
        if float(np.max(np.abs(ts[K] - 1.0))) <= 1e-9:
            d = refq.fro(XK - Ap) / refq.fro(Ap)
            ctx.check("limit_penrose", d, 1e-7 + CT * EPS * (K + 2) * max(m, n) * (kap * kap if third else kap), site=site + ":distance_to_pinv",
                      tags=tags, detail={"K": K})
    # stop accuracy on the same matrix (tolerance-stopped run)
    tol = float(rng.choice([1e-6, 1e-8]))
    for track in (True, False):
        sol = S.NewtonSchulzPseudoinverse(gamma=gamma, max_iter=4 * K + 50, tol=tol, compute_residuals=track)
        X, res, cov = sol.compute(A)
        if len(cov) >= 4 * K + 50 or not refq.is_finite(X):
            ctx.skip("stop_accuracy", "did not stop before the cap")
            continue
        ctx.hit("stopped_before_cap")
        tg = [f"kappa={kap:g}"] + ([] if track else ["cov_only_stop"] + (["cov_only_stop&s_min>1"] if s[-1] > 1.0 else []))
        ctx.check("stop_accuracy", refq.fro(X - Ap), tol / (s[-1] ** 2) * (1 + 1e-6) + CT * EPS * (len(cov) + 2) * max(m, n) * kap * refq.fro(Ap),
                  site=f"NewtonSchulzPseudoinverse[residuals={track}]:stop", tags=tg,
                  detail={"shape": [m, n], "kappa": kap, "tol": tol, "gamma": gamma, "iterations": len(cov)})
