"""C17 QSLST restoration (DESIGN.md section 7, C17)."""
from __future__ import annotations

import numpy as np

from .. import gen
from ..oracle import conv

ID = "C17"
LEVEL = "exploration"
RULE = ("images H x W in 1..6 x 1..6 (quick) / 1..9 x 1..9 (thorough), non-square included; PSFs no larger than the image: "
        "build_psf_gaussian (radius 0..2, sigma .5/1/2), build_psf_motion (length 1..5, angles 0/30/45/90/135), random non-negative "
        "kernels of every size kH x kW <= H x W incl. even sizes and 1x1, a single off-centre tap (mis-centring shows as a pure shift); "
        "lambda in {1e-3, 1e-1, 1, 10} and lambda = 0 where min|H_hat| >= 1e-3; quaternion images Gaussian, one-hot, single-channel. "
        "apply_blur_fft vs the centred periodic convolution by definition; impulse response; mass; qslst_restore_fft vs the normal "
        "equations of the oracle's explicit BCCB matrix; qslst_restore_matrix on that matrix vs the FFT path; dense and CSR builders "
        "of the deblurring application vs the oracle matrix (entrywise); linearity in B, channel independence, lambda -> 0 inversion; "
        "PSF generators non-negative with unit sum and documented shape. distinct = (image digest, psf digest, lambda); non-trivial = "
        "H*W >= 2 and the kernel has more than one tap or is off-centre")
ASSUMPTIONS = ["the middle tap of a kH x kW kernel is (kH//2, kW//2) (the convention documented by _pad_psf and used by both builders)",
               "bounds: c*eps*log2(HW+1)*||psf||_1*||X||_inf for the blur (c = 1e3); normal equations c*eps*N*(||A||_2^2+lambda)*||X||*kappa(T)"]
SHARDS = {"quick": 8, "thorough": 16}
DECIDING = ["blur_is_centred_convolution", "impulse_response", "mass_scaled", "fft_restore_normal_equations", "matrix_restore_equals_fft",
            "dense_builder_is_operator", "csr_builder_is_operator", "restore_linear", "channels_independent", "lambda0_inverts",
            "psf_generator_wellformed", "input_unchanged"]
MUST_REACH = ["history:same_taps_other_shape", "history:same_kernel_other_image", "history:kernel_updated_in_place", "kernel:smaller_than_image", "kernel:same_size_as_image", "kernel:even", "kernel:asymmetric", "kernel:1x1", "image:non_square", "image:channel_amplitudes_vary",
              "lambda:zero", "lambda:zero_ill_conditioned"]

C = 1e3
EPS = float(np.finfo(float).eps)
_APP = None


def setup(ctx, R):
    global _APP
    try:
        _APP = R.deblur_script()
    except Exception as e:       # the builders are then reported as not evaluated (inconclusive), never as violations
        ctx.note(f"deblurring application could not be imported: {e!r}")
        _APP = None


def cases(tier, seed):
    out = []
    maxd = 6 if tier == "quick" else 14
    idx = 0
    for H in range(1, maxd + 1):
        for W in range(1, maxd + 1):
            for k in range(8 if tier == "quick" else 24):
                out.append({"kind": "img", "cls": "square" if H == W else "non_square", "H": H, "W": W, "idx": idx, "seed": seed})
                idx += 1
    # larger and strongly non-square images (sides above 32 that are not 5-smooth, aspect ratios above 3)
    big = [(8, 37), (33, 5), (3, 41), (35, 7), (34, 10), (34, 34)] if tier == "quick" else \
          [(8, 37), (33, 5), (3, 41), (35, 7), (34, 10), (34, 34), (37, 33), (1, 67), (67, 1), (2, 49), (47, 6), (39, 38), (64, 5), (5, 66)]
    for (H, W) in big:
        for k in range(2 if tier == "quick" else 6):
            out.append({"kind": "img", "cls": "large_or_elongated", "H": H, "W": W, "idx": idx, "seed": seed})
            idx += 1
    # sides with a LARGE PRIME FACTOR (13, 17, 19, 23, 26, 29, 31): a transform on a padded "fast" length is a linear, not a periodic, convolution;
    # every kernel kind is visited (the kernel index advances with idx)
    prime = [(13, 10), (10, 13), (17, 7), (6, 19), (13, 13), (23, 4), (26, 5), (9, 11), (11, 7), (7, 22)] if tier == "quick" else \
            [(13, 10), (10, 13), (17, 7), (6, 19), (13, 13), (23, 4), (26, 5), (9, 11), (11, 7), (7, 22), (29, 3), (4, 31), (19, 17), (38, 3), (14, 11), (11, 11)]
    for (H, W) in prime:
        for k in range(3 if tier == "quick" else 8):
            out.append({"kind": "img", "cls": "side_with_large_prime_factor", "H": H, "W": W, "idx": idx, "seed": seed})
            idx += 1
    # badly conditioned but invertible blurs (Gaussian as wide as the image): lambda = 0 must still undo them
    for (H, W) in ([(16, 16), (12, 16), (10, 14), (9, 9), (8, 12)] if tier == "quick" else [(16, 16), (12, 16), (10, 14), (9, 9), (20, 15), (11, 23), (18, 18)]):
        for k in range(2 if tier == "quick" else 6):
            out.append({"kind": "img", "cls": "ill_conditioned_blur", "H": H, "W": W, "idx": idx, "seed": seed, "kernel_index": 10})
            idx += 1
    # call histories inside one process: kernels with identical taps but different shapes (1xL, Lx1, axb), the same kernel on
    # different image sizes, and a kernel updated in place between two calls
    for k in range(12 if tier == "quick" else 80):
        out.append({"kind": "history", "cls": "history", "idx": idx, "seed": seed, "maxd": maxd})
        idx += 1
    for k in range(30 if tier == "quick" else 200):
        out.append({"kind": "psfgen", "cls": "psf_generators", "idx": idx, "seed": seed})
        idx += 1
    return out


def run_case(spec, ctx, R):
    {"img": _img, "psfgen": _psfgen, "history": _history}[spec["kind"]](spec, ctx, R)


_WIDE_SIGMA = {(16, 16): 1.3, (12, 16): 1.5, (10, 14): 1.3, (9, 9): 1.5, (8, 12): 1.7, (20, 15): 1.3, (11, 23): 1.3, (18, 18): 1.2}


def _kernel(rng, Q, H, W, idx):
    kind = ["random", "single_tap", "gaussian", "motion", "full_size", "even", "one", "asym_small", "int_weights", "int_weights_asym", "wide_gaussian", "even_flip_symmetric", "graded_taps", "long_tail_gaussian"][idx % 14]
    if kind == "random":
        kH, kW = int(rng.integers(1, H + 1)), int(rng.integers(1, W + 1))
        psf = rng.random((kH, kW))
    elif kind == "single_tap":
        kH, kW = int(rng.integers(1, H + 1)), int(rng.integers(1, W + 1))
        psf = np.zeros((kH, kW))
        psf[int(rng.integers(0, kH)), int(rng.integers(0, kW))] = 1.0
    elif kind == "gaussian":
        rad = int(rng.integers(0, 3))
        while 2 * rad + 1 > min(H, W):
            rad -= 1
        psf = Q.build_psf_gaussian(max(rad, 0), float(rng.choice([0.5, 1.0, 2.0])))
    elif kind == "even_flip_symmetric":
        # an even-sized kernel whose values equal their own 180-degree flip (box, Gaussian sampled at half-integer offsets, equal columns):
        # its documented centre tap k//2 is half a sample off the symmetry centre, so the operator is NOT symmetric
        kH = min(H, int(rng.choice([1, 2, 3, 4])))
        kW = min(W, int(rng.choice([2, 4, 2, 3])))
        if kH % 2 and kW % 2:
            kW = min(W, 2) if W >= 2 else kW
        variant = int(rng.integers(0, 3))
        if variant == 0:
            psf = np.ones((kH, kW))
        elif variant == 1:
            gy = np.exp(-0.5 * ((np.arange(kH) - (kH - 1) / 2.0) / 0.9) ** 2)
            gx = np.exp(-0.5 * ((np.arange(kW) - (kW - 1) / 2.0) / 0.9) ** 2)
            psf = np.outer(gy, gx)
        else:
            half = rng.random((kH, kW))
            psf = half + half[::-1, ::-1]
    elif kind == "wide_gaussian":
        # a Gaussian as wide as the image allows: the transfer function gets tiny (1e-4 .. 1e-8 of its maximum) but stays non-zero,
        # i.e. the blur is invertible and badly conditioned
        rad = max(0, (min(H, W) - 1) // 2 - int(rng.integers(0, 2)))
        sg = float(rng.choice([1.0, 1.3, 0.8]))
        if (H, W) in _WIDE_SIGMA:        # sizes for which a sigma with kappa(A) in 1e6 .. 1e8 is tabulated
            rad, sg = (min(H, W) - 1) // 2, _WIDE_SIGMA[(H, W)]
        psf = Q.build_psf_gaussian(rad, sg)
    elif kind == "graded_taps":
        # taps on scales 1 .. 1e-12 of the peak: the small ones are part of the operator (a truncated kernel is another operator)
        kH, kW = int(rng.integers(1, min(H, 5) + 1)), int(rng.integers(1, min(W, 5) + 1))
        psf = (0.2 + rng.random((kH, kW))) * 10.0 ** rng.choice([0.0, 0.0, -3.0, -7.0, -9.0, -12.0], size=(kH, kW))
        psf[kH // 2, kW // 2] = 1.0
    elif kind == "long_tail_gaussian":
        # Gaussian sampled out to 4 .. 5 sigma (corner taps 1e-7 .. 1e-11 of the peak), as large as the image allows
        rad = max(0, min(4, (min(H, W) - 1) // 2))
        psf = Q.build_psf_gaussian(rad, float(rng.choice([1.0, 0.8, 0.9])) if rad >= 3 else 0.5)
    elif kind == "motion":
        L = int(rng.integers(1, 6))
        while (L if L % 2 else L + 1) > min(H, W):
            L -= 1
        psf = Q.build_psf_motion(max(L, 1), float(rng.choice([0.0, 30.0, 45.0, 90.0, 135.0])))
    elif kind == "full_size":
        psf = rng.random((H, W))
    elif kind == "even":
        kH = 2 * int(rng.integers(1, H // 2 + 1)) if H >= 2 else 1
        kW = 2 * int(rng.integers(1, W // 2 + 1)) if W >= 2 else 1
        psf = rng.random((kH, kW))
    elif kind in ("int_weights", "int_weights_asym"):
        # integer weights in an integer dtype, NOT normalised (binomial-like or arbitrary): the operator is still the centred convolution
        kH, kW = min(H, int(rng.integers(1, 4))), min(W, int(rng.integers(1, 4)))
        w = rng.integers(0, 5, size=(kH, kW))
        if kind == "int_weights" and kH == 3 and kW == 3:
            w = np.array([[1, 2, 1], [2, 4, 2], [1, 2, 1]])
        if not w.any():
            w[0, 0] = 1
        return np.ascontiguousarray(w.astype([np.int64, np.int32, np.uint8][idx % 3])), kind
    elif kind == "one":
        psf = np.array([[float(rng.choice([1.0, 0.5, 2.0]))]])
    else:
        kH, kW = min(H, 2 + int(rng.integers(0, 2))), min(W, 2 + int(rng.integers(0, 2)))
        psf = rng.random((kH, kW)) * np.linspace(0.1, 1.0, kW)[None, :]
    if kind not in ("one", "single_tap") and psf.sum() > 0:
        psf = psf / psf.sum()
    return np.ascontiguousarray(psf, dtype=float), kind


def _image(rng, H, W, idx):
    k = idx % 5
    if k == 0:
        X = np.zeros((H, W, 4)); X[int(rng.integers(0, H)), int(rng.integers(0, W)), int(rng.integers(0, 4))] = 1.0
    elif k == 1:
        X = np.zeros((H, W, 4)); X[..., int(rng.integers(0, 4))] = rng.standard_normal((H, W))
    elif k == 2:
        X = rng.random((H, W, 4))
    else:
        X = rng.standard_normal((H, W, 4))
    return X


_AMPS = [(1, 1, 1, 1), (1, 1, 1, 1), (1e-10, 1, 1, 1), (1, 1e-12, 1e6, 1e-9), (1e-10, 1e-10, 1e-10, 1e-10), (3e-9, 1, 1e-3, 1), (1e8, 1e8, 1e8, 1e8),
         (1, 1, 1, 1), (1e-15, 1e-7, 1, 1e-20)]


def _chmax(Z):
    return np.maximum(np.abs(Z).reshape(-1, 4).max(axis=0), 1e-300)


def _img(spec, ctx, R):
    Q = R.qslst
    H, W = spec["H"], spec["W"]
    rng = gen.rng_for(spec["seed"], "c17", spec["idx"])
    psf, kind = _kernel(rng, Q, H, W, spec["idx"] if "kernel_index" not in spec else spec["kernel_index"])
    kH, kW = psf.shape
    X = _image(rng, H, W, spec["idx"] // 8)
    # per-channel amplitudes: the four channels are convolved independently, so every clause is judged per channel relative to
    # that channel's own size (a channel of amplitude 1e-10 next to one of amplitude 1 must still be blurred / restored)
    amp = np.array(_AMPS[(spec["idx"] // 7) % len(_AMPS)], dtype=float)
    X = X * amp
    if not np.all(amp == 1.0):
        ctx.hit("image:channel_amplitudes_vary")
    X = gen.vary(X, spec["idx"] // 3)
    psf = gen.vary(psf, spec["idx"] // 5)
    N = H * W
    tags = [kind]
    if (kH, kW) == (H, W):
        ctx.hit("kernel:same_size_as_image")
    else:
        ctx.hit("kernel:smaller_than_image")
        tags.append("kernel_smaller_than_image")
    if kH % 2 == 0 or kW % 2 == 0:
        ctx.hit("kernel:even")
    if not (np.array_equal(psf, psf[::-1, ::-1]) and kH % 2 and kW % 2):
        ctx.hit("kernel:asymmetric")
        tags.append("asymmetric_kernel")
    if (kH, kW) == (1, 1):
        ctx.hit("kernel:1x1")
    if H != W:
        ctx.hit("image:non_square")
    nontriv = N >= 2 and (np.count_nonzero(psf) > 1 or np.argmax(psf) != (kH // 2) * kW + kW // 2)
    lam = float([1e-3, 1e-1, 1.0, 10.0][spec["idx"] % 4])
    # lambda in the numeric types a caller may hold it in (the value is the same)
    lam_form = [float, np.float64, float, np.float32, float][(spec["idx"] // 4) % 5]
    if lam in (1.0, 10.0) and (spec["idx"] // 4) % 3 == 1:
        lam_form = [int, np.int64][(spec["idx"] // 12) % 2]
    if lam_form is np.float32:
        lam = float(np.float32(lam))
    lam_arg = lam_form(lam)
    ctx.hit("callform:lambda_" + lam_form.__name__)
    ctx.distinct(X, psf, lam, nontrivial=bool(nontriv))
    X0, psf0 = X.copy(), psf.copy()
    det = {"image": [H, W], "kernel": [kH, kW], "kernel_kind": kind, "lambda": lam}
    if spec["idx"] % 19 == 0:
        ctx.sample({**det, "psf": psf, "image_first_channel": X[..., 0]})
    p1 = float(np.abs(psf).sum())
    xinf = float(np.abs(X).max())
    logf = np.log2(N + 1) + 1
    # ---- blur ---------------------------------------------------------------------------------
    try:
        B = Q.apply_blur_fft(X, psf, boundary="periodic") if spec["idx"] % 3 == 0 else (Q.apply_blur_fft(X, psf, "periodic") if spec["idx"] % 3 == 1 else Q.apply_blur_fft(X, psf))
    except Exception as e:
        ctx.check("unexpected_exception", False, site="apply_blur_fft", tags=tags, detail={**det, "exception": repr(e)})
        return
    ref = np.stack([conv.conv2_periodic_centred(X[..., c], psf) for c in range(4)], axis=-1)
    xch = _chmax(X)
    bb = C * EPS * logf * p1
    okB = B.shape == X.shape and np.all(np.isfinite(B))
    ctx.check("blur_is_centred_convolution", float((np.abs(B - ref) / xch).max()) if okB else float("inf"), bb, site="apply_blur_fft", tags=tags,
              detail={**det, "channel_amplitudes": list(amp), "judged": "per channel, relative to the channel's largest entry"})
    E = np.zeros((H, W, 4))
    i0, j0 = int(rng.integers(0, H)), int(rng.integers(0, W))
    E[i0, j0, :] = [1.0, -2.0, 0.5, 3.0]
    BE = Q.apply_blur_fft(E, psf)
    centred = np.zeros((H, W))
    for u in range(kH):
        for v in range(kW):
            centred[(i0 + u - kH // 2) % H, (j0 + v - kW // 2) % W] += psf[u, v]
    ctx.check("impulse_response", float(np.abs(BE - centred[..., None] * np.array([1.0, -2.0, 0.5, 3.0])).max()),
              C * EPS * logf * p1 * 3.0 + 1e-300, site="apply_blur_fft", tags=tags, detail={**det, "impulse_at": [i0, j0]})
    ctx.check("mass_scaled", float((np.abs(B.sum(axis=(0, 1)) - psf.sum() * X.sum(axis=(0, 1))) / xch).max()),
              C * EPS * N * p1, site="apply_blur_fft", tags=tags, detail=det)
    # ---- operator matrices ---------------------------------------------------------------------
    A = conv.bccb_matrix(psf, H, W)
    Ad_built = Ac_built = None
    if _APP is not None and N <= 81:
        try:
            Ad = Ad_built = _APP._build_bccb_matrix(psf, H, W)
            ctx.check("dense_builder_is_operator", bool(Ad.shape == A.shape and np.array_equal(Ad, A)), site="_build_bccb_matrix", tags=tags,
                      detail={**det, "max_abs_diff": float(np.abs(Ad - A).max()) if Ad.shape == A.shape else None})
        except Exception as e:
            ctx.check("unexpected_exception", False, site="_build_bccb_matrix", tags=tags, detail={**det, "exception": repr(e)})
        try:
            Ac = Ac_built = _APP._build_bccb_csr(psf, H, W)
            Acd = np.asarray(Ac.todense())
            ctx.check("csr_builder_is_operator", float(np.abs(Acd - A).max()) if Acd.shape == A.shape else float("inf"), 4 * EPS * p1 + 1e-300,
                      site="_build_bccb_csr", tags=tags, detail=det)
        except Exception as e:
            ctx.check("unexpected_exception", False, site="_build_bccb_csr", tags=tags, detail={**det, "exception": repr(e)})
    # ---- restoration ---------------------------------------------------------------------------
    Bn = ref + 0.01 * amp * rng.standard_normal(ref.shape)      # observed image (blurred by the ORACLE operator, plus noise)
    sv = np.linalg.svd(A, compute_uv=False)
    a2 = float(sv[0] ** 2)
    lams = [lam_arg]
    if sv[-1] >= 1e-3:
        lams.append(0.0 if spec["idx"] % 2 else 0)
        ctx.hit("lambda:zero")
    for lm in lams:
        T = A.T @ A + lm * np.eye(N)
        kapT = (a2 + lm) / max(float(sv[-1] ** 2) + lm, 1e-300)
        try:
            Xr = Q.qslst_restore_fft(Bn, psf, lm)
        except Exception as e:
            ctx.check("unexpected_exception", False, site="qslst_restore_fft", tags=tags, detail={**det, "lambda": lm, "exception": repr(e)})
            continue
        okX = Xr.shape == Bn.shape and np.all(np.isfinite(Xr))
        res = 0.0
        if okX:
            xrch = np.maximum(_chmax(Xr), _chmax(Bn) / max(np.sqrt(a2) + lm, 1e-300) * 1e-3)
            for c in range(4):
                res = max(res, float(np.abs(T @ Xr[..., c].reshape(-1) - A.T @ Bn[..., c].reshape(-1)).max()) / xrch[c])
        nb = C * EPS * N * logf * ((a2 + lm) * kapT if okX else 1.0)
        ctx.check("fft_restore_normal_equations", res if okX else float("inf"), nb, site="qslst_restore_fft", tags=tags, detail={**det, "lambda": lm, "kappa_T": kapT})
        if N <= 81 and okX:
            try:
                Xm = Q.qslst_restore_matrix(Bn, A, lm)
                ctx.check("matrix_restore_equals_fft", float((np.abs(Xm - Xr) / xrch).max()),
                          C * EPS * N * logf * kapT, site="qslst_restore_matrix", tags=tags,
                          detail={**det, "lambda": lm, "kappa_T": kapT})
            except Exception as e:
                ctx.check("unexpected_exception", False, site="qslst_restore_matrix", tags=tags, detail={**det, "exception": repr(e)})
            # the same restoration from the operator matrices the application's builders hand out (their dtype follows the kernel's)
            for bname, Ab in (("dense_builder", Ad_built), ("csr_builder", Ac_built), ("explicit_in_kernel_dtype", A.astype(psf.dtype) if psf.dtype.kind != "u" else None)):
                if Ab is None:
                    continue
                try:
                    Xb = Q.qslst_restore_matrix(Bn, Ab, lm)
                except Exception as e:
                    if bname == "csr_builder":
                        ctx.skip("matrix_restore_equals_fft", "sparse operator not accepted by qslst_restore_matrix")
                    else:
                        ctx.check("unexpected_exception", False, site="qslst_restore_matrix:" + bname, tags=tags, detail={**det, "exception": repr(e)})
                    continue
                ctx.check("matrix_restore_equals_fft", float((np.abs(np.asarray(Xb) - Xr) / xrch).max()), C * EPS * N * logf * kapT,
                          site="qslst_restore_matrix:" + bname, tags=tags, detail={**det, "lambda": repr(lm), "kappa_T": kapT, "matrix_dtype": str(getattr(Ab, "dtype", None))})
        if lm == 0.0 and okX:
            Xi = Q.qslst_restore_fft(ref, psf, 0.0)
            ctx.check("lambda0_inverts", float((np.abs(Xi - X) / xch).max()), C * EPS * N * logf * kapT,
                      site="qslst_restore_fft", tags=tags, detail={**det, "kappa_T": kapT})
    # lambda = 0 inverts the blur WHEREVER it is invertible, also when it is badly conditioned: error governed by kappa(A), not by
    # kappa(A)^2 (the filter conj(H)/|H|^2 is 1/H), so a kernel with min|H| = 1e-7 max|H| still has to be undone to 1e-6
    kapA = float(sv[0] / sv[-1]) if sv[-1] > 0 else float("inf")
    if 1e3 < kapA <= 1e9:
        ctx.hit("lambda:zero_ill_conditioned")
        for lm0 in (0.0, 0):
            try:
                Xi = Q.qslst_restore_fft(ref, psf, lm0)
                ctx.check("lambda0_inverts", float((np.abs(Xi - X) / xch).max()), C * EPS * N * logf * kapA, site="qslst_restore_fft:ill_conditioned", tags=tags,
                          detail={**det, "kappa_A": kapA})
            except Exception as e:
                ctx.check("unexpected_exception", False, site="qslst_restore_fft", tags=tags, detail={**det, "lambda": 0, "exception": repr(e)})
    # linearity and channel independence (lambda = lam)
    B2 = amp * rng.standard_normal(Bn.shape)
    al, be = 0.75, -1.5
    X1, X2 = Q.qslst_restore_fft(Bn, psf, lam), Q.qslst_restore_fft(B2, psf, lam)
    X12 = Q.qslst_restore_fft(al * Bn + be * B2, psf, lam)
    scale = np.maximum(_chmax(X1), _chmax(X2))
    ctx.check("restore_linear", float((np.abs(X12 - (al * X1 + be * X2)) / scale).max()), C * EPS * logf * 4, site="qslst_restore_fft",
              tags=tags, detail=det)
    ch = int(rng.integers(0, 4))
    B3 = Bn.copy()
    B3[..., ch] = amp[ch] * rng.standard_normal((H, W))
    X3 = Q.qslst_restore_fft(B3, psf, lam, boundary="periodic") if spec["idx"] % 2 else Q.qslst_restore_fft(B3, psf, lam, "periodic")
    others = [c for c in range(4) if c != ch]
    ctx.check("channels_independent", bool(np.array_equal(X3[..., others], X1[..., others])), site="qslst_restore_fft", tags=tags, detail={**det, "channel": ch})
    Bb = Q.apply_blur_fft(B3, psf)
    Bb0 = Q.apply_blur_fft(Bn, psf)
    ctx.check("channels_independent", bool(np.array_equal(Bb[..., others], Bb0[..., others])), site="apply_blur_fft", tags=tags, detail={**det, "channel": ch})
    ctx.check("input_unchanged", bool(np.array_equal(X, X0) and np.array_equal(psf, psf0)), site="qslst", tags=tags)


def _psfgen(spec, ctx, R):
    Q = R.qslst
    rng = gen.rng_for(spec["seed"], "c17psf", spec["idx"])
    if spec["idx"] % 2 == 0:
        rad, sig = int(rng.integers(0, 5)), float(rng.choice([0.3, 0.5, 1.0, 2.0, 5.0]))
        psf = Q.build_psf_gaussian(rad, sig)
        shape = (2 * rad + 1, 2 * rad + 1)
        site, det = "build_psf_gaussian", {"radius": rad, "sigma": sig}
        sym = np.allclose(psf, psf[::-1, ::-1]) and np.allclose(psf, psf.T)
        peak = np.argmax(psf) == rad * (2 * rad + 1) + rad
        extra = bool(sym and peak)
    else:
        L, ang = int(rng.integers(1, 10)), float(rng.choice([0.0, 30.0, 45.0, 60.0, 90.0, 135.0, 180.0, 270.0]))
        psf = Q.build_psf_motion(L, ang)
        K = L if L % 2 else L + 1
        shape = (K, K)
        site, det = "build_psf_motion", {"length": L, "angle": ang}
        extra = bool(np.count_nonzero(psf) <= L and np.count_nonzero(psf) >= 1)
    ctx.distinct(site, det)
    ok = psf.shape == shape and np.all(psf >= 0) and abs(float(psf.sum()) - 1.0) <= 1e-12 and extra
    ctx.check("psf_generator_wellformed", bool(ok), site=site, detail={**det, "shape": psf.shape, "sum": float(psf.sum())})


def _check_pair(ctx, Q, X, psf, lam, site, tags, det):
    """Blur and FFT restoration of one (image, kernel) pair against the definition (used by the history cases)."""
    H, W = X.shape[:2]
    N = H * W
    logf = np.log2(N + 1) + 1
    p1, xinf = float(np.abs(psf).sum()), float(np.abs(X).max())
    B = Q.apply_blur_fft(X, psf)
    ref = np.stack([conv.conv2_periodic_centred(X[..., c], psf) for c in range(4)], axis=-1)
    ctx.check("blur_is_centred_convolution", float(np.abs(B - ref).max()), C * EPS * logf * p1 * max(xinf, 1e-300) + 1e-300, site=site, tags=tags, detail=det)
    A = conv.bccb_matrix(psf, H, W)
    sv = np.linalg.svd(A, compute_uv=False)
    a2 = float(sv[0] ** 2)
    T = A.T @ A + lam * np.eye(N)
    kapT = (a2 + lam) / max(float(sv[-1] ** 2) + lam, 1e-300)
    Xr = Q.qslst_restore_fft(ref, psf, lam)
    res = max(float(np.abs(T @ Xr[..., c].reshape(-1) - A.T @ ref[..., c].reshape(-1)).max()) for c in range(4))
    ctx.check("fft_restore_normal_equations", res, C * EPS * N * logf * (a2 + lam) * max(float(np.abs(Xr).max()), 1e-300) * kapT + 1e-300,
              site=site, tags=tags, detail={**det, "lambda": lam})


def _history(spec, ctx, R):
    Q = R.qslst
    rng = gen.rng_for(spec["seed"], "c17hist", spec["idx"])
    L = int(rng.choice([2, 3, 4, 6]))
    H, W = int(rng.integers(L, spec["maxd"] + 1)) if L <= spec["maxd"] else L, int(rng.integers(L, spec["maxd"] + 1)) if L <= spec["maxd"] else L
    taps = rng.random(L)
    taps /= taps.sum()
    shapes = [(a, L // a) for a in range(1, L + 1) if L % a == 0]
    X = rng.standard_normal((H, W, 4))
    lam = float(rng.choice([1e-2, 0.5]))
    ctx.distinct("history", X, taps)
    seq = shapes + [shapes[0]]
    for si, (a, b) in enumerate(seq):
        psf = np.ascontiguousarray(taps.reshape(a, b))
        ctx.hit("history:same_taps_other_shape")
        _check_pair(ctx, Q, X, psf, lam, "history:same_taps_other_shape", [f"kernel={a}x{b}", f"step={si}"],
                    {"image": [H, W], "kernel": [a, b], "sequence": [list(s_) for s_ in seq], "step": si})
    # the same kernel on another image size, and back
    psf = np.ascontiguousarray(taps.reshape(shapes[-1]))
    H2, W2 = H + 1, max(1, W - 1) if W - 1 >= shapes[-1][1] else W + 2
    for si, (hh, ww) in enumerate([(H, W), (H2, W2), (H, W)]):
        ctx.hit("history:same_kernel_other_image")
        _check_pair(ctx, Q, rng.standard_normal((hh, ww, 4)), psf, lam, "history:same_kernel_other_image", [f"step={si}"],
                    {"image": [hh, ww], "kernel": list(psf.shape), "step": si})
    # the caller updates the kernel array in place between two calls (same object, new taps)
    psf2 = psf.copy()
    _check_pair(ctx, Q, X, psf2, lam, "history:kernel_updated_in_place", ["step=0"], {"image": [H, W], "kernel": list(psf2.shape)})
    psf2[...] = psf2[::-1, ::-1] * 0.5 + 0.1
    ctx.hit("history:kernel_updated_in_place")
    _check_pair(ctx, Q, X, psf2, lam, "history:kernel_updated_in_place", ["step=1"], {"image": [H, W], "kernel": list(psf2.shape)})
