"""vq: runtime-monitoring machinery for the QuatIca properties (see /verif/DESIGN.md)."""
