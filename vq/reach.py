"""Branch-reach counters on the real code via sys.monitoring (PEP 669).

Branches are located by AST pattern inside a named function of the repository
(never by line number).  LINE events are enabled on the enclosing code object
only; every line that is not a watched branch returns DISABLE, so the cost is
one callback per distinct line per code object.
"""
from __future__ import annotations

import ast
import inspect
import sys
import textwrap
import types

TOOL = 3  # sys.monitoring tool id (free ids: 0..5; 3 is not reserved by debuggers/profilers)


class Locator:
    """Find the first body line of an `if` / `except` / `else` whose header matches a pattern."""

    def __init__(self, func, name, contains, kind="if", which="body", locals_=()):
        self.func, self.name, self.contains = func, name, contains
        self.kind, self.which, self.locals_ = kind, which, tuple(locals_)

    def resolve(self):
        f = inspect.unwrap(self.func)
        f = getattr(f, "__func__", f)
        try:
            src, first = inspect.getsourcelines(f)
        except (OSError, TypeError):
            return None
        tree = ast.parse(textwrap.dedent("".join(src)))
        hits = []
        for node in ast.walk(tree):
            if self.kind == "if" and isinstance(node, ast.If):
                if self.contains in ast.unparse(node.test):
                    body = node.body if self.which == "body" else node.orelse
                    if body:
                        hits.append(body[0].lineno)
            elif self.kind == "except" and isinstance(node, ast.ExceptHandler):
                txt = ast.unparse(node.type) if node.type is not None else ""
                if self.contains in txt or self.contains == "*":
                    hits.append(node.body[0].lineno)
            elif self.kind == "for_else" and isinstance(node, ast.For):
                if self.contains in ast.unparse(node.iter) and node.orelse:
                    hits.append(node.orelse[0].lineno)
        if not hits:
            return None
        return [first + h - 1 for h in sorted(hits)]


def _code_objects(code):
    yield code
    for c in code.co_consts:
        if isinstance(c, types.CodeType):
            yield from _code_objects(c)


class Reach:
    def __init__(self, ctx):
        self.ctx = ctx
        self.targets = {}     # (code, line) -> (name, locals)
        self.codes = set()
        self.missing = []
        self.active = False

    def watch(self, loc: Locator, index=None):
        lines = loc.resolve()
        if not lines:
            self.missing.append(loc.name)
            self.ctx.note(f"locator_missing: {loc.name}")
            self.ctx.hit("locator_missing:" + loc.name)      # the code was refactored: reach evidence falls back to black-box classes
            return
        if index is not None:
            lines = [lines[index]] if -len(lines) <= index < len(lines) else []
        f = inspect.unwrap(loc.func)
        f = getattr(f, "__func__", f)
        for line in lines:
            for co in _code_objects(f.__code__):
                lo = co.co_firstlineno
                hi = max([ln for _, _, ln in co.co_lines() if ln is not None] + [lo])
                if lo <= line <= hi and any(ln == line for _, _, ln in co.co_lines()):
                    self.targets[(co, line)] = (loc.name, loc.locals_)
                    self.codes.add(co)

    def start(self):
        if not hasattr(sys, "monitoring") or not self.targets:
            return
        mon = sys.monitoring
        try:
            mon.use_tool_id(TOOL, "vq-reach")
        except ValueError:
            pass
        mon.register_callback(TOOL, mon.events.LINE, self._cb)
        for co in self.codes:
            mon.set_local_events(TOOL, co, mon.events.LINE)
        self.active = True

    def _cb(self, code, line):
        t = self.targets.get((code, line))
        if t is None:
            return sys.monitoring.DISABLE
        name, locs = t
        state = None
        if locs:
            fr = sys._getframe(1)
            state = tuple((k, _short(fr.f_locals.get(k))) for k in locs)
        self.ctx.hit(name, state)
        return None

    def stop(self):
        if not self.active:
            return
        mon = sys.monitoring
        for co in self.codes:
            mon.set_local_events(TOOL, co, 0)
        mon.register_callback(TOOL, mon.events.LINE, None)
        try:
            mon.free_tool_id(TOOL)
        except Exception:
            pass
        self.active = False


def _short(v):
    if isinstance(v, (int, str, bool)) or v is None:
        return v
    if isinstance(v, float):
        return float(f"{v:.3g}")
    return type(v).__name__
