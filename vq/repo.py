"""Locate and import the repository under test.

The repository is taken from VQ_REPO (default /repo).  Two import styles exist
(DESIGN.md section 2): "flat" (tests' style: <repo>/quatica on sys.path, modules
imported as top-level `utils`, `solver`, `decomp.*`, ...) and "package"
(`import quatica`).  One style is chosen per process; every module object that
is handed to a monitor is asserted to come from VQ_REPO.
"""
from __future__ import annotations

import contextlib
import importlib
import io
import os
import subprocess
import sys
import types

REPO = os.path.realpath(os.environ.get("VQ_REPO", "/repo"))
QDIR = os.path.join(REPO, "quatica")


class RepoError(RuntimeError):
    pass


def _setup_path() -> None:
    # flat directory first, repo root second: both styles then resolve to VQ_REPO
    for p in (REPO, QDIR):
        while p in sys.path:
            sys.path.remove(p)
    sys.path.insert(0, REPO)
    sys.path.insert(0, QDIR)
    os.environ.setdefault("MPLBACKEND", "Agg")


def _check_origin(mod: types.ModuleType) -> None:
    f = os.path.realpath(getattr(mod, "__file__", "") or "")
    if not f.startswith(REPO + os.sep):
        raise RepoError(f"module {mod.__name__} loaded from {f}, not from {REPO}")


class Repo:
    """Handle on the imported repository modules (one import style)."""

    def __init__(self, style: str = "flat") -> None:
        _setup_path()
        self.style = style
        self.root = REPO
        buf = io.StringIO()
        with contextlib.redirect_stdout(buf):
            if style == "flat":
                self.utils = importlib.import_module("utils")
                self.solver = importlib.import_module("solver")
                self.data_gen = importlib.import_module("data_gen")
                self.tensor = importlib.import_module("tensor")
                self.qslst = importlib.import_module("qslst")
                self.decomp = importlib.import_module("decomp")
                pre = "decomp."
            elif style == "package":
                self.quatica = importlib.import_module("quatica")
                self.utils = importlib.import_module("quatica.utils")
                self.solver = importlib.import_module("quatica.solver")
                self.data_gen = importlib.import_module("quatica.data_gen")
                self.tensor = importlib.import_module("quatica.tensor")
                self.qslst = importlib.import_module("quatica.qslst")
                self.decomp = importlib.import_module("quatica.decomp")
                pre = "quatica.decomp."
            else:
                raise ValueError(style)
            self.qsvd = importlib.import_module(pre + "qsvd")
            self.LU = importlib.import_module(pre + "LU")
            self.eigen = importlib.import_module(pre + "eigen")
            self.tridiagonalize = importlib.import_module(pre + "tridiagonalize")
            self.hessenberg = importlib.import_module(pre + "hessenberg")
            self.schur = importlib.import_module(pre + "schur")
        for m in self.modules():
            _check_origin(m)

    def modules(self):
        return [
            self.utils, self.solver, self.data_gen, self.tensor, self.qslst, self.decomp,
            self.qsvd, self.LU, self.eigen, self.tridiagonalize, self.hessenberg, self.schur,
        ]

    def all_loaded_repo_modules(self):
        """Every module in sys.modules whose file lies under the repository
        (all namespaces: flat, decomp.*, quatica.*)."""
        out = []
        for name, m in list(sys.modules.items()):
            f = getattr(m, "__file__", None)
            if m is None or not f:
                continue
            if os.path.realpath(f).startswith(REPO + os.sep):
                out.append(m)
        return out

    def deblur_script(self):
        """The deblurring application module (only its two builders are used)."""
        appdir = os.path.join(REPO, "applications", "image_deblurring")
        if appdir not in sys.path:
            sys.path.insert(0, appdir)
        buf = io.StringIO()
        with contextlib.redirect_stdout(buf):
            mod = importlib.import_module("script_image_deblurring")
        _check_origin(mod)
        return mod

    def sparse_from_dense(self, A):
        """SparseQuaternionMatrix (of this namespace) holding the dense quaternion array A."""
        import numpy as np
        import quaternion
        from scipy import sparse

        c = quaternion.as_float_array(A)
        parts = [sparse.csr_matrix(np.ascontiguousarray(c[..., k])) for k in range(4)]
        return self.utils.SparseQuaternionMatrix(*parts, A.shape)


def describe() -> dict:
    """git describe of the tree under test (for the evidence file)."""
    info = {"path": REPO}
    try:
        info["head"] = subprocess.run(
            ["git", "-C", REPO, "rev-parse", "--short", "HEAD"],
            capture_output=True, text=True, timeout=20).stdout.strip()
        st = subprocess.run(
            ["git", "-C", REPO, "status", "--porcelain", "--untracked-files=no"],
            capture_output=True, text=True, timeout=20).stdout.strip()
        info["dirty"] = bool(st)
    except Exception as e:  # pragma: no cover
        info["git_error"] = repr(e)
    return info


@contextlib.contextmanager
def quiet():
    """Capture the library's prints so the check's own output stays parseable."""
    buf = io.StringIO()
    with contextlib.redirect_stdout(buf):
        yield buf
