"""Independent real / complex embeddings and spectral references.

The left-regular representation L(q) is *computed* from products of basis
units, L(q)[a, b] = (q * e_b)_a, using numpy-quaternion's scalar multiply.
"""
from __future__ import annotations

import numpy as np
import quaternion

from . import refq

_E = [np.quaternion(1, 0, 0, 0), np.quaternion(0, 1, 0, 0),
      np.quaternion(0, 0, 1, 0), np.quaternion(0, 0, 0, 1)]


def Lq(q) -> np.ndarray:
    """4x4 real matrix of left multiplication by q in the basis (1,i,j,k)."""
    M = np.zeros((4, 4))
    for b in range(4):
        p = q * _E[b]
        M[:, b] = [p.w, p.x, p.y, p.z]
    return M


# L is real-linear: precompute L(e_a) once, L(q) = sum_a q_a L(e_a)
_LB = np.stack([Lq(e) for e in _E], axis=0)       # (4 comps, 4, 4)


def real_interleaved(A) -> np.ndarray:
    """4m x 4n matrix whose (i,j) 4x4 block is L(A_ij)."""
    c = refq.fa(A)
    m, n = c.shape[:2]
    blocks = np.einsum("ija,ars->irjs", c, _LB)     # (m,4,n,4)
    return blocks.reshape(4 * m, 4 * n)


def real_blocked(A) -> np.ndarray:
    """Component-blocked layout: block (r,s) of size m x n holds entry (r,s) of every L(A_ij)."""
    c = refq.fa(A)
    m, n = c.shape[:2]
    blocks = np.einsum("ija,ars->risj", c, _LB)     # (4,m,4,n)
    return blocks.reshape(4 * m, 4 * n)


def chi(A) -> np.ndarray:
    """Complex adjoint [[C, D], [-conj D, conj C]] with A = C + D j, C = w + x i, D = y + z i."""
    c = refq.fa(A)
    C = c[..., 0] + 1j * c[..., 1]
    D = c[..., 2] + 1j * c[..., 3]
    return np.block([[C, D], [-np.conj(D), np.conj(C)]])


def chi_inv(M, m, n) -> np.ndarray:
    C = M[:m, :n]
    D = M[:m, n:2 * n]
    return refq.qa(np.stack([C.real, C.imag, D.real, D.imag], axis=-1))


def svals(A) -> np.ndarray:
    """Quaternion singular values (non-increasing), min(m,n) of them."""
    A = np.asarray(A)
    if min(A.shape) == 0:
        return np.zeros(0)
    s = np.linalg.svd(chi(A), compute_uv=False)
    return s[::2].copy()


def eigvalsh(A) -> np.ndarray:
    """Eigenvalues of a Hermitian quaternion matrix, ascending."""
    M = chi(A)
    M = 0.5 * (M + M.conj().T)
    w = np.linalg.eigvalsh(M)
    return w[::2].copy()


def pinv(A, rcond=1e-13) -> np.ndarray:
    m, n = A.shape
    return chi_inv(np.linalg.pinv(chi(A), rcond=rcond), n, m)


def solve(A, B) -> np.ndarray:
    """X with A X = B (square nonsingular A)."""
    n = A.shape[0]
    k = B.shape[1]
    X = np.linalg.solve(chi(A), chi(B))
    return chi_inv(X, n, k)


def lstsq(A, B) -> np.ndarray:
    m, n = A.shape
    k = B.shape[1]
    X = np.linalg.lstsq(chi(A), chi(B), rcond=None)[0]
    return chi_inv(X, n, k)


def rank(A, rtol=None) -> int:
    s = svals(A)
    if len(s) == 0 or s[0] == 0:
        return 0
    if rtol is None:
        rtol = max(A.shape) * refq.EPS
    return int(np.sum(s > rtol * s[0]))


def cond(A) -> float:
    s = svals(A)
    return float(s[0] / s[-1]) if len(s) and s[-1] > 0 else float("inf")


def selftest(rng) -> list[str]:
    """Returns a list of failures (empty = oracle consistent)."""
    bad = []
    for (m, k, n) in [(1, 1, 1), (2, 3, 2), (3, 2, 4), (4, 4, 4)]:
        A = refq.randq(rng, m, k)
        B = refq.randq(rng, k, n)
        AB = refq.matmul(A, B)
        tol = 1e-13 * (1 + refq.fro(A) * refq.fro(B))
        if np.abs(chi(AB) - chi(A) @ chi(B)).max() > tol:
            bad.append("chi not multiplicative")
        if np.abs(real_interleaved(AB) - real_interleaved(A) @ real_interleaved(B)).max() > tol:
            bad.append("real_interleaved not multiplicative")
        if np.abs(real_blocked(AB) - real_blocked(A) @ real_blocked(B)).max() > tol:
            bad.append("real_blocked not multiplicative")
        if not np.array_equal(chi(refq.herm(A)), chi(A).conj().T):
            bad.append("chi does not map ^H to ^H")
        if not np.array_equal(real_interleaved(refq.herm(A)), real_interleaved(A).T):
            bad.append("real_interleaved does not map ^H to ^T")
        if not np.array_equal(refq.fa(chi_inv(chi(A), m, k)), refq.fa(A)):
            bad.append("chi_inv o chi != id")
    for n in (1, 2, 5):
        U = refq.rand_unitary(rng, n)
        if refq.orth_err(U) > 1e-13 * (n + 1):
            bad.append(f"rand_unitary not unitary n={n}: {refq.orth_err(U)}")
    A, U, V = refq.with_singular_values(rng, 4, 3, [3.0, 2.0, 0.5])
    if np.abs(svals(A) - [3.0, 2.0, 0.5]).max() > 1e-13:
        bad.append("svals oracle disagrees with construction")
    H, _ = refq.hermitian_with_eigs(rng, [-2.0, 1.0, 1.0, 3.0])
    if np.abs(eigvalsh(H) - [-2.0, 1.0, 1.0, 3.0]).max() > 1e-13:
        bad.append("eigvalsh oracle disagrees with construction")
    if not np.array_equal(refq.fa(H), refq.fa(refq.herm(H))):
        bad.append("symmetrize not exact")
    P = pinv(A)
    if refq.fro(refq.matmul(refq.matmul(A, P), A) - A) > 1e-13 * 10:
        bad.append("pinv oracle fails Penrose 1")
    return bad
