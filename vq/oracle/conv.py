"""Centred periodic convolution by the definition and the BCCB matrix built from it (no FFT, no repo code).

Convention (the one documented by the repository: "peak at (0,0)" after shifting by k//2): the middle tap of a
kH x kW kernel is (kH//2, kW//2);  (psf * X)[i, j] = sum_{u,v} psf[u, v] * X[(i - (u - cH)) mod H, (j - (v - cW)) mod W].
"""
from __future__ import annotations

import numpy as np


def conv2_periodic_centred(X: np.ndarray, psf: np.ndarray) -> np.ndarray:
    """X: (H, W) real; psf: (kH, kW) with kH <= H, kW <= W.  Quadruple loop of the definition (vectorised over i, j)."""
    H, W = X.shape
    kH, kW = psf.shape
    cH, cW = kH // 2, kW // 2
    out = np.zeros((H, W))
    for u in range(kH):
        for v in range(kW):
            w = float(psf[u, v])
            if w != 0.0:
                out += w * np.roll(np.roll(X, u - cH, axis=0), v - cW, axis=1)
    return out


def bccb_matrix(psf: np.ndarray, H: int, W: int) -> np.ndarray:
    """N x N matrix A with A @ vec(X) = vec(psf * X) (row-major vec), entry by entry from the definition."""
    kH, kW = psf.shape
    cH, cW = kH // 2, kW // 2
    N = H * W
    A = np.zeros((N, N))
    for i in range(H):
        for j in range(W):
            r = i * W + j
            for u in range(kH):
                for v in range(kW):
                    w = float(psf[u, v])
                    if w != 0.0:
                        p = (i - (u - cH)) % H
                        q = (j - (v - cW)) % W
                        A[r, p * W + q] += w
    return A


def selftest(rng) -> list[str]:
    bad = []
    for (H, W, kH, kW) in [(4, 5, 3, 3), (3, 3, 3, 3), (5, 4, 2, 3), (6, 6, 1, 1), (4, 4, 4, 2)]:
        X = rng.standard_normal((H, W))
        psf = rng.random((kH, kW))
        Y = conv2_periodic_centred(X, psf)
        A = bccb_matrix(psf, H, W)
        if np.abs(A @ X.reshape(-1) - Y.reshape(-1)).max() > 1e-13:
            bad.append("bccb_matrix disagrees with conv2_periodic_centred")
        # FFT cross-check with an independently built padded kernel (centre tap at the origin, wrap-around over the image)
        pad = np.zeros((H, W))
        for u in range(kH):
            for v in range(kW):
                pad[(u - kH // 2) % H, (v - kW // 2) % W] += psf[u, v]
        Yf = np.real(np.fft.ifft2(np.fft.fft2(X) * np.fft.fft2(pad)))
        if np.abs(Yf - Y).max() > 1e-12:
            bad.append("conv by definition disagrees with FFT cross-check")
        # impulse response is the centred kernel
        E = np.zeros((H, W)); E[0, 0] = 1.0
        if not np.allclose(conv2_periodic_centred(E, psf), pad, atol=0, rtol=0):
            bad.append("impulse response is not the centred kernel")
    return bad
