"""Exact rational quaternion arithmetic on the actual float inputs.

Floats are dyadic rationals, so Fraction(float) is exact; the Hamilton product
table is written out from the defining relations i^2=j^2=k^2=ijk=-1.
"""
from __future__ import annotations

from fractions import Fraction

import numpy as np

from . import refq

# e_a * e_b = sign * e_c   (a, b, c in 0..3)
_TABLE = {}
_rel = {
    (1, 2): (1, 3), (2, 3): (1, 1), (3, 1): (1, 2),      # ij=k, jk=i, ki=j
    (2, 1): (-1, 3), (3, 2): (-1, 1), (1, 3): (-1, 2),   # ji=-k, kj=-i, ik=-j
}
for a in range(4):
    for b in range(4):
        if a == 0:
            _TABLE[(a, b)] = (1, b)
        elif b == 0:
            _TABLE[(a, b)] = (1, a)
        elif a == b:
            _TABLE[(a, b)] = (-1, 0)
        else:
            _TABLE[(a, b)] = _rel[(a, b)]


def unit_product(a: int, b: int):
    """(sign, index) of e_a * e_b."""
    return _TABLE[(a, b)]


def to_frac(A) -> list:
    c = refq.fa(A)
    m, n = c.shape[:2]
    return [[[Fraction(float(c[i, j, a])) for a in range(4)] for j in range(n)] for i in range(m)]


def qmul(p, q):
    out = [Fraction(0)] * 4
    for a in range(4):
        if p[a] == 0:
            continue
        for b in range(4):
            if q[b] == 0:
                continue
            s, c = _TABLE[(a, b)]
            out[c] = out[c] + s * p[a] * q[b]
    return out


def matmul(FA, FB):
    m, k, n = len(FA), len(FB), len(FB[0]) if FB else 0
    C = [[[Fraction(0)] * 4 for _ in range(n)] for _ in range(m)]
    for i in range(m):
        for j in range(n):
            acc = [Fraction(0)] * 4
            for l in range(k):
                p = qmul(FA[i][l], FB[l][j])
                acc = [acc[t] + p[t] for t in range(4)]
            C[i][j] = acc
    return C


def abs_term_sum(A, B) -> np.ndarray:
    """sum_k |A_ik||B_kj| (float, upper bound on every component's term magnitudes)."""
    return refq.absq(A) @ refq.absq(B)


def to_float(FC) -> np.ndarray:
    m = len(FC)
    n = len(FC[0]) if m else 0
    out = np.zeros((m, n, 4))
    for i in range(m):
        for j in range(n):
            for a in range(4):
                out[i, j, a] = float(FC[i][j][a])
    return out


def fro2(A) -> Fraction:
    """Exact squared Frobenius norm."""
    s = Fraction(0)
    for v in refq.fa(A).ravel():
        f = Fraction(float(v))
        s += f * f
    return s
