"""Independent oracles (never call repository code).  See DESIGN.md section 4."""
