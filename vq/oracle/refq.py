"""Float reference quaternion algebra, independent of the repository.

Products are evaluated by the definition C_ij = sum_k A_ik * B_kj using
numpy-quaternion's scalar multiplication (a C routine), not the repository's
16-term component formulas.
"""
from __future__ import annotations

import math

import numpy as np
import quaternion

EPS = float(np.finfo(float).eps)
Q = np.quaternion


def qa(c) -> np.ndarray:
    """float array (...,4) -> quaternion array (copy)."""
    return quaternion.as_quat_array(np.ascontiguousarray(np.asarray(c, dtype=float))).copy()


def fa(A) -> np.ndarray:
    """quaternion array -> float array (...,4) (copy)."""
    return np.array(quaternion.as_float_array(np.asarray(A, dtype=Q)), dtype=float, copy=True)


def zeros(m, n) -> np.ndarray:
    return np.zeros((m, n), dtype=Q)


def eye(n) -> np.ndarray:
    c = np.zeros((n, n, 4))
    c[np.arange(n), np.arange(n), 0] = 1.0
    return qa(c)


def matmul(A, B) -> np.ndarray:
    """Hamilton matrix product by the definition."""
    A = np.asarray(A, dtype=Q)
    B = np.asarray(B, dtype=Q)
    assert A.ndim == 2 and B.ndim == 2 and A.shape[1] == B.shape[0], (A.shape, B.shape)
    if A.shape[1] == 0:
        return zeros(A.shape[0], B.shape[1])
    return (A[:, :, None] * B[None, :, :]).sum(axis=1)


def herm(A) -> np.ndarray:
    c = fa(A)
    c[..., 1:] *= -1.0
    return qa(np.swapaxes(c, 0, 1))


def fro(A) -> float:
    c = fa(A).ravel()
    return math.sqrt(math.fsum(float(v) * float(v) for v in c)) if c.size < 4096 else float(np.sqrt(np.sum(c * c)))


def absq(A) -> np.ndarray:
    c = fa(A)
    return np.sqrt(np.sum(c * c, axis=-1))


def diagq(vals, m=None, n=None) -> np.ndarray:
    vals = np.asarray(vals, dtype=float)
    k = len(vals)
    m = k if m is None else m
    n = k if n is None else n
    c = np.zeros((m, n, 4))
    for i, v in enumerate(vals):
        c[i, i, 0] = v
    return qa(c)


def randq(rng, m, n, scale=1.0) -> np.ndarray:
    return qa(rng.standard_normal((m, n, 4)) * scale)


def unit_quats(rng, n) -> np.ndarray:
    c = rng.standard_normal((n, 4))
    c /= np.linalg.norm(c, axis=1, keepdims=True)
    return qa(c)


def rand_unitary(rng, n) -> np.ndarray:
    """Random unitary quaternion matrix: product of n quaternion Householder
    reflectors I - 2uu^H (each exactly Hermitian-unitary) times a diagonal of
    unit quaternions.  Unitary to O(n*eps) by construction, no repo code."""
    U = eye(n)
    for _ in range(max(1, n)):
        u = randq(rng, n, 1)
        u = u / fro(u)
        U = U - 2.0 * matmul(matmul(U, u), herm(u))
    d = unit_quats(rng, n)
    return U * d[None, :]


def rand_orthonormal_cols(rng, m, k) -> np.ndarray:
    assert k <= m
    return rand_unitary(rng, m)[:, :k].copy()


def with_singular_values(rng, m, n, svals):
    """A = U diag(s) V^H with oracle-made unitary factors; returns (A, U, V)."""
    U = rand_unitary(rng, m)
    V = rand_unitary(rng, n)
    S = diagq(svals, m, n)
    return matmul(matmul(U, S), herm(V)), U, V


def hermitian_with_eigs(rng, eigs):
    """Exactly Hermitian A = U diag(l) U^H (symmetrised bit-for-bit); returns (A, U)."""
    n = len(eigs)
    U = rand_unitary(rng, n)
    A = matmul(U * np.asarray(eigs, dtype=float)[None, :], herm(U))
    return symmetrize(A), U


def symmetrize(A) -> np.ndarray:
    """Make A exactly Hermitian (A + A^H)/2 with real diagonal."""
    c = fa(A)
    ch = np.swapaxes(c, 0, 1).copy()
    ch[..., 1:] *= -1.0
    s = 0.5 * (c + ch)
    n = s.shape[0]
    s[np.arange(n), np.arange(n), 1:] = 0.0
    # enforce exact conjugate symmetry from the upper triangle
    iu = np.triu_indices(n, 1)
    s[iu[1], iu[0], 0] = s[iu[0], iu[1], 0]
    s[iu[1], iu[0], 1:] = -s[iu[0], iu[1], 1:]
    return qa(s)


def orth_err(Qm) -> float:
    """|| Q^H Q - I ||_F"""
    k = Qm.shape[1]
    if k == 0:
        return 0.0
    return fro(matmul(herm(Qm), Qm) - eye(k))


def is_finite(A) -> bool:
    return bool(np.all(np.isfinite(fa(A)))) if getattr(A, "dtype", None) == Q else bool(np.all(np.isfinite(np.asarray(A, dtype=float))))
