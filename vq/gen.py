"""Workload generators: entry classes, memory layouts, structured matrices.

Everything is a deterministic function of an explicit numpy Generator, which in
turn is derived from (VERIF_SEED, case index) so that a case spec replays.
"""
from __future__ import annotations

import hashlib
import itertools

import numpy as np

from .oracle import refq

ENTRY_CLASSES = ["gauss", "int", "pure_imag", "single_axis", "zeros", "sparse", "mixed_mag", "huge", "tiny", "nonpos", "nonneg", "nonpos_sparse", "sum_zero", "neg_real", "two_axis", "mixed_comp", "graded_cols", "graded_rows"]


def rng_for(seed: int, *key) -> np.random.Generator:
    h = hashlib.sha1(repr((seed,) + tuple(key)).encode()).digest()
    return np.random.default_rng(int.from_bytes(h[:8], "little"))


def entries(rng, cls: str, m: int, n: int) -> np.ndarray:
    """m x n quaternion matrix of the given entry class."""
    if cls == "gauss":
        c = rng.standard_normal((m, n, 4))
    elif cls == "int":
        c = rng.integers(-3, 4, size=(m, n, 4)).astype(float)
    elif cls == "pure_imag":
        c = rng.standard_normal((m, n, 4))
        c[..., 0] = 0.0
    elif cls == "single_axis":
        c = np.zeros((m, n, 4))
        ax = int(rng.integers(0, 4))
        c[..., ax] = rng.standard_normal((m, n))
    elif cls == "two_axis":          # only two of the four components are populated (e.g. real + k, i + j): the other planes are exactly 0
        c = np.zeros((m, n, 4))
        ax = rng.choice(4, size=2, replace=False)
        c[..., ax[0]] = rng.standard_normal((m, n))
        c[..., ax[1]] = rng.standard_normal((m, n))
    elif cls.startswith("axes:"):    # "axes:03" = populated components w and k, every other plane exactly zero (all 15 non-empty subsets are used)
        c = np.zeros((m, n, 4))
        for ch in cls.split(":", 1)[1]:
            c[..., int(ch)] = rng.standard_normal((m, n)) if rng.random() < 0.7 else rng.integers(-3, 4, size=(m, n)).astype(float)
    elif cls == "zeros":
        c = np.zeros((m, n, 4))
    elif cls == "sparse":
        dens = float(rng.choice([0.05, 0.2, 0.5]))
        c = rng.standard_normal((m, n, 4)) * (rng.random((m, n, 1)) < dens)
    elif cls == "mixed_mag":
        ex = rng.integers(-6, 7, size=(m, n, 1)).astype(float)
        c = rng.standard_normal((m, n, 4)) * 10.0 ** ex
    elif cls == "mixed_comp":        # the four COMPONENTS of each entry on different scales (1 .. 1e-12): nearly real / nearly pure entries
        ex = rng.choice([0.0, -3.0, -6.0, -9.0, -12.0], size=(m, n, 4))
        c = rng.standard_normal((m, n, 4)) * 10.0 ** ex
    elif cls in ("graded_cols", "graded_rows"):   # whole columns (rows) on scales 1, 1e-3, ... 1e-12: legitimately tiny columns next to O(1) ones
        ex = rng.permutation(np.resize(np.array([0.0, -3.0, -6.0, -9.0, -12.0]), n if cls == "graded_cols" else m))
        c = rng.standard_normal((m, n, 4)) * (10.0 ** ex)[(None, slice(None), None) if cls == "graded_cols" else (slice(None), None, None)]
    elif cls == "huge":
        c = rng.standard_normal((m, n, 4)) * 1e140
    elif cls == "tiny":
        c = rng.standard_normal((m, n, 4)) * 1e-140
    elif cls == "nonpos":            # sign patterns: no strictly positive component anywhere
        c = -np.abs(rng.standard_normal((m, n, 4)))
    elif cls == "neg_real":          # real matrix without a positive entry (zero vector part): the maximum of the entries is <= 0
        c = np.zeros((m, n, 4))
        c[..., 0] = -np.abs(np.round(rng.standard_normal((m, n)) * 4.0) / 2.0 if rng.random() < 0.5 else rng.standard_normal((m, n)))
    elif cls == "nonneg":
        c = np.abs(rng.standard_normal((m, n, 4)))
    elif cls == "sum_zero":          # exact cancellations between components: x + y + z = 0 (and sometimes w + x + y + z = 0)
        c = np.round(rng.standard_normal((m, n, 4)) * 3.0)
        c[..., 3] = -(c[..., 1] + c[..., 2])
        if rng.random() < 0.5:
            c[..., 0] = 0.0
        c = c * (rng.random((m, n, 1)) < 0.7)
    elif cls == "nonpos_sparse":
        c = -np.abs(rng.standard_normal((m, n, 4))) * (rng.random((m, n, 1)) < 0.4)
        if rng.random() < 0.5:
            c[..., 0] = 0.0
    else:
        raise ValueError(cls)
    return refq.qa(c)


AXES_SUBSETS = ["".join(str(i) for i in range(4) if (b >> i) & 1) for b in range(1, 16)]      # the 15 non-empty subsets of the components
LAYOUTS = ["C", "F", "strided", "transposed_view", "readonly", "negative_strides"]


def layout(A: np.ndarray, name: str) -> np.ndarray:
    """Same values as A in a different memory layout."""
    if name == "C":
        return np.ascontiguousarray(A).copy()
    if name == "F":
        return np.asfortranarray(A.copy())
    if name == "strided":
        big = np.zeros(tuple(2 * s + 1 for s in A.shape), dtype=A.dtype)
        sl = tuple(slice(1, None, 2) for _ in A.shape)
        big[sl] = A
        v = big[sl]
        assert v.shape == A.shape
        return v
    if name == "transposed_view":
        if A.ndim != 2:
            return A.copy()
        return np.ascontiguousarray(A.T).copy().T
    if name == "negative_strides":
        rev = tuple(slice(None, None, -1) for _ in A.shape)
        return np.ascontiguousarray(A[rev]).copy()[rev]        # same values, every axis walked backwards in memory
    if name == "readonly":
        B = A.copy()
        B.setflags(write=False)
        return B
    raise ValueError(name)


def vary(A: np.ndarray, idx: int) -> np.ndarray:
    """Same values in a memory layout chosen by idx (most cases stay C-contiguous; every 9-cycle visits the other five layouts)."""
    return layout(A, ["C", "C", "F", "C", "strided", "transposed_view", "readonly", "C", "negative_strides"][idx % 9])


def shapes3(maxdim: int):
    return list(itertools.product(range(1, maxdim + 1), repeat=3))


def spectrum(kind: str, r: int, rng, kappa: float = 10.0) -> np.ndarray:
    """r positive values, non-increasing."""
    if r == 0:
        return np.zeros(0)
    if kind == "simple":
        s = np.sort(1.0 + rng.random(r) * (kappa - 1.0))[::-1]
        s = s + np.arange(r, 0, -1) * 0.05          # keep gaps >= 0.05
    elif kind == "geometric":
        s = np.geomspace(kappa, 1.0, r) if r > 1 else np.array([1.0])
    elif kind == "equal":
        s = np.full(r, 2.0)
    elif kind == "cluster":
        s = 2.0 * (1.0 + 1e-3 * np.arange(r, 0, -1))
    elif kind == "repeat2":
        base = np.sort(1.0 + rng.random(max(1, r - 1)) * 3.0)[::-1] + np.arange(max(1, r - 1), 0, -1) * 0.1
        s = np.concatenate([base[:1], base[:1], base[1:]])[:r] if r >= 2 else base[:r]
        s = np.sort(s)[::-1]
    else:
        raise ValueError(kind)
    return np.asarray(s, dtype=float)


STRUCT_CLASSES = ["axis0", "axis1", "axis2", "axis3", "herm_psd", "herm_nsd", "herm_indef", "unitary", "diag",
                  "unit_identity", "rank1", "upper_tri", "lower_tri", "one_nonzero", "real_only", "tiny_row", "neg_identity", "spike_vs_flat", "spike_vs_flat_T",
                  "mixed_type_lines", "mixed_type_lines_T"]


def structured(rng, cls: str, m: int, n: int) -> np.ndarray:
    """Structured m x n quaternion matrices (square classes use n = m)."""
    if cls.startswith("axis"):
        c = np.zeros((m, n, 4))
        c[..., int(cls[4])] = rng.standard_normal((m, n))
        return refq.qa(c)
    if cls in ("herm_psd", "herm_nsd", "herm_indef"):
        B = refq.randq(rng, m, m)
        G = refq.symmetrize(refq.matmul(refq.herm(B), B))
        if cls == "herm_psd":
            return G
        if cls == "herm_nsd":
            return -G
        H, _ = refq.hermitian_with_eigs(rng, np.concatenate([[-3.0 - rng.random()], rng.random(m - 1) * 2.0]) if m > 1 else [-2.0])
        return H
    if cls == "unitary":
        return refq.rand_unitary(rng, m)
    if cls == "diag":
        c = np.zeros((m, n, 4))
        for i in range(min(m, n)):
            c[i, i] = rng.standard_normal(4)
        return refq.qa(c)
    if cls == "unit_identity":
        c = np.zeros((m, n, 4))
        a = int(rng.integers(0, 4))
        for i in range(min(m, n)):
            c[i, i, a] = 1.0
        return refq.qa(c)
    if cls == "neg_identity":
        c = np.zeros((m, n, 4))
        a = int(rng.integers(0, 4))
        for i in range(min(m, n)):
            c[i, i, a] = -1.0
        return refq.qa(c)
    if cls == "rank1":
        return refq.matmul(refq.randq(rng, m, 1), refq.randq(rng, 1, n))
    if cls in ("upper_tri", "lower_tri"):
        c = rng.standard_normal((m, n, 4))
        mask = np.triu(np.ones((m, n))) if cls == "upper_tri" else np.tril(np.ones((m, n)))
        return refq.qa(c * mask[..., None])
    if cls == "one_nonzero":
        c = np.zeros((m, n, 4))
        c[int(rng.integers(0, m)), int(rng.integers(0, n))] = rng.standard_normal(4)
        return refq.qa(c)
    if cls == "real_only":
        c = np.zeros((m, n, 4))
        c[..., 0] = rng.standard_normal((m, n))
        return refq.qa(c)
    if cls in ("spike_vs_flat", "spike_vs_flat_T"):
        # one line (row; column for _T) carries a single large entry and is otherwise nearly empty, the other lines are flat and dense: the
        # spiky line wins every 2-norm comparison, a flat line wins the sum of moduli - any screening of lines by another norm picks wrongly
        mm, nn = (m, n) if cls == "spike_vs_flat" else (n, m)
        c = rng.standard_normal((mm, nn, 4)) * 0.2
        r_ = int(rng.integers(0, mm))
        c[r_] *= 1e-3
        flat2 = float(np.sqrt((c ** 2).sum(axis=(1, 2))).max())
        v = rng.standard_normal(4)
        c[r_, int(rng.integers(0, nn))] = v / np.linalg.norm(v) * (2.0 * np.sqrt(max(mm, 1)) * flat2 + 1.0)
        A = refq.qa(c)
        return A if cls == "spike_vs_flat" else refq.qa(np.transpose(c, (1, 0, 2)).copy())
    if cls in ("mixed_type_lines", "mixed_type_lines_T"):
        # lines (rows; columns for _T) of different quaternion TYPE: the line with the largest sum of moduli consists of single-component entries
        # (|w|+|x|+|y|+|z| = |q|), the others of entries with four equal components (|w|+|x|+|y|+|z| = 2|q|) whose sums of moduli reach 72 .. 99 %
        # of the winner's - any screening of lines by a component-wise bound (sum or maximum of |components|, 1-norm of the real form) ranks them wrongly
        mm, nn = (m, n) if cls == "mixed_type_lines" else (n, m)
        c = np.zeros((mm, nn, 4))
        win = int(rng.integers(0, mm))
        ax = int(rng.integers(0, 4))
        mods = 0.5 + rng.random(nn)
        c[win, :, ax] = mods * rng.choice([-1.0, 1.0], size=nn)
        for i in range(mm):
            if i == win:
                continue
            frac = float(rng.choice([0.72, 0.8, 0.9, 0.97, 0.99])) if i % 2 == 0 else float(rng.random() * 0.6)
            mo = (0.5 + rng.random(nn)); mo = mo / mo.sum() * mods.sum() * frac
            c[i] = (mo / 2.0)[:, None] * rng.choice([-1.0, 1.0], size=(nn, 4))
        A = refq.qa(c)
        return A if cls == "mixed_type_lines" else refq.qa(np.transpose(c, (1, 0, 2)).copy())
    if cls == "tiny_row":
        c = rng.standard_normal((m, n, 4))
        c[int(rng.integers(0, m))] *= 1e-18
        return refq.qa(c)
    raise ValueError(cls)


def is_square_class(cls: str) -> bool:
    return cls in ("herm_psd", "herm_nsd", "herm_indef", "unitary")


def history_forms(A: np.ndarray, hermitian: bool = False):
    """Generator of (label, array) for call histories over ONE buffer: the caller's own object, the same object after in-place updates,
    and views of it that keep its address but not its strides / extent.  The consumer must use each array before asking for the next
    (the in-place updates happen in between).  hermitian=True keeps every yielded matrix Hermitian."""
    import quaternion
    m, n = A.shape
    c = quaternion.as_float_array(A)
    yield "first_call", A
    if hermitian:
        c *= -3.0
        for i in range(min(m, n)):
            c[i, i, 0] += 1.5 + i
    else:
        c[[0, m - 1]] = c[[m - 1, 0]].copy()
        c[m // 2, 0] += np.array([1.5, -0.5, 0.25, 2.0])
        c *= -3.0
    yield "after_inplace_update", A
    if m == n and n >= 2:
        yield "transposed_view_of_previous", A.T
        yield ("both_axes_reversed_view_of_previous", A[::-1, ::-1]) if hermitian else ("rows_reversed_view_of_previous", A[::-1])
    if not hermitian and n >= 2:
        yield "columns_reversed_view_of_previous", A[:, ::-1]
    if m >= 3 and n >= 3:
        yield "leading_block_of_previous", A[: m - 1, : n - 1]
        yield "trailing_block_of_previous", A[1:, 1:]
    yield "parent_again", A


def sparse_storage_forms(rng, X: np.ndarray):
    """The same real m x n matrix X in the storage forms a caller may hand to a sparse routine: canonical CSR, CSC, COO, LIL, DOK, BSR, DIA (with the
    out-of-range padding slots of the diagonal storage holding junk, as the spdiags idiom produces), raw CSR with DUPLICATE stored entries (which scipy
    defines to be summed), raw CSR with unsorted indices, CSR with explicitly stored zeros, COO with repeated coordinates.  Every form satisfies
    form.toarray() == X exactly (splits are x = x/2 + x/2 or x = (x - 1) + 1 on small integers / dyadic data; for general floats x = 0.5x + 0.5x is exact).
    Yields (label, scipy sparse matrix)."""
    from scipy import sparse

    X = np.asarray(X, dtype=float)
    m, n = X.shape
    yield "csr", sparse.csr_matrix(X)
    yield "csc", sparse.csc_matrix(X)
    yield "coo", sparse.coo_matrix(X)
    yield "lil", sparse.lil_matrix(X)
    yield "dok", sparse.dok_matrix(X)
    yield "bsr", sparse.bsr_matrix(X)
    # the newer sparse ARRAY containers: same data, indices and format - but `*` is the element-wise product there and `@` the matrix product
    for lab_, cls_ in (("csr_array", "csr_array"), ("csc_array", "csc_array"), ("coo_array", "coo_array")):
        if hasattr(sparse, cls_):
            yield lab_, getattr(sparse, cls_)(X)
    # DIA with junk in the padding slots
    d = sparse.dia_matrix(X)
    if d.data.size:
        data = d.data.copy()
        for r, off in enumerate(d.offsets):
            for c in range(data.shape[1]):
                i = c - off
                if not (0 <= i < m and c < n):
                    data[r, c] = 7.5 + r
        dj = sparse.dia_matrix((data, d.offsets), shape=(m, n))
        if np.array_equal(dj.toarray(), X):
            yield "dia_padded", dj
    rows, cols = np.nonzero(X)
    vals = X[rows, cols]
    # COO with every entry stored twice as halves (exact)
    r2 = np.concatenate([rows, rows]); c2 = np.concatenate([cols, cols]); v2 = np.concatenate([0.5 * vals, 0.5 * vals])
    perm = rng.permutation(len(r2))
    coo_dup = sparse.coo_matrix((v2[perm], (r2[perm], c2[perm])), shape=(m, n))
    if np.array_equal(coo_dup.toarray(), X):
        yield "coo_duplicates", coo_dup
    # raw CSR with duplicate column indices inside a row (has_canonical_format is False; .tocsr() returns it unchanged)
    indptr = [0]; indices = []; data = []
    for i in range(m):
        for j in np.nonzero(X[i])[0]:
            indices += [int(j), int(j)]; data += [0.5 * X[i, j], 0.5 * X[i, j]]
        indptr.append(len(indices))
    csr_dup = sparse.csr_matrix((np.array(data, dtype=float), np.array(indices, dtype=np.int32), np.array(indptr, dtype=np.int32)), shape=(m, n))
    if np.array_equal(csr_dup.toarray(), X):
        yield "csr_duplicates", csr_dup
    # duplicates that CANCEL: x stored as (x + 1) and (-1) for integer data where that is exact
    if len(vals) and np.all(vals == np.round(vals)) and np.all(np.abs(vals) < 2 ** 40):
        indptr = [0]; indices = []; data = []
        for i in range(m):
            for j in np.nonzero(X[i])[0]:
                indices += [int(j), int(j)]; data += [X[i, j] + 1.0, -1.0]
            indptr.append(len(indices))
        yield "csr_duplicates_cancelling", sparse.csr_matrix((np.array(data), np.array(indices, dtype=np.int32), np.array(indptr, dtype=np.int32)), shape=(m, n))
    # unsorted indices
    indptr = [0]; indices = []; data = []
    for i in range(m):
        js = list(np.nonzero(X[i])[0][::-1])
        indices += [int(j) for j in js]; data += [X[i, j] for j in js]
        indptr.append(len(indices))
    yield "csr_unsorted", sparse.csr_matrix((np.array(data, dtype=float), np.array(indices, dtype=np.int32), np.array(indptr, dtype=np.int32)), shape=(m, n))
    # explicitly stored zeros (every position stored)
    full = sparse.csr_matrix((X.ravel().copy(), np.tile(np.arange(n, dtype=np.int32), m), np.arange(0, m * n + 1, n, dtype=np.int32)), shape=(m, n))
    yield "csr_explicit_zeros", full
