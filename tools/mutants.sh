#!/bin/bash
# tools/mutants.sh <ID> [tier] : run the owner's check against every patch in mutants/<ID>/ (and seeded/<ID>*/patch.diff);
# a mutant is CAUGHT when the check exits 1 with a VIOLATION line.
ID="$1"; TIER="${2:-quick}"
HERE="$(cd "$(dirname "${BASH_SOURCE[0]}")/.." && pwd)"
miss=0
for p in "$HERE"/mutants/"$ID"/*.diff "$HERE"/seeded/"$ID"*/patch.diff; do
  [ -f "$p" ] || continue
  out="$("$HERE/tools/mutant.sh" "$p" "$ID" "$TIER" 0 2>&1)"; rc=$?
  nv=$(echo "$out" | grep -c '^VIOLATION')
  if [ $rc -eq 1 ] && [ "$nv" -gt 0 ]; then echo "CAUGHT  $(realpath --relative-to="$HERE" "$p")  ($nv violation kinds) $(echo "$out" | grep -m1 'clause=' | cut -c1-110)";
  else echo "MISSED  $(realpath --relative-to="$HERE" "$p") rc=$rc $(echo "$out" | tail -n 2 | head -n 1 | cut -c1-160)"; miss=$((miss+1)); fi
done
exit $miss
