#!/bin/bash
# tools/mutant.sh <patch.diff> <ID> [tier] [seed]
# Run one check against a scratch worktree of /repo with the patch applied (outputs under a temp dir,
# never /verif/evidence); prints the check's output and exit code; removes the worktree afterwards.
PATCH="$(realpath "$1")"; ID="$2"; TIER="${3:-quick}"; SEED="${4:-0}"
HERE="$(cd "$(dirname "${BASH_SOURCE[0]}")/.." && pwd)"
WT="$(mktemp -d /tmp/vqm-XXXXXX)"; OUT="$(mktemp -d /tmp/vqo-XXXXXX)"
rmdir "$WT"
git -C /repo worktree add -q --detach "$WT" HEAD || exit 9
cleanup() { git -C /repo worktree remove --force "$WT" >/dev/null 2>&1; rm -rf "$WT" "$OUT"; }
trap cleanup EXIT
if ! git -C "$WT" apply "$PATCH"; then echo "PATCH DOES NOT APPLY"; exit 8; fi
VQ_REPO="$WT" VQ_OUT="$OUT" "$HERE/check" "$ID" --tier "$TIER" --seed "$SEED"
rc=$?
echo "exit=$rc"
exit $rc
