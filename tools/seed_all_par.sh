#!/bin/bash
# tools/seed_all_par.sh [jobs=4]: like seed_all.sh, several seeded changes at a time (each in its own scratch worktree)
HERE="$(cd "$(dirname "${BASH_SOURCE[0]}")/.." && pwd)"
J="${1:-4}"
ls -d "$HERE"/seeded/C* | xargs -P "$J" -I{} bash -c 'd="{}"; n="$(basename "$d")"; id="${n:0:3}"; out="$("'"$HERE"'/tools/seed_eval.sh" "$id" "$d" "$n" 2>&1 | grep "^RESULT" | tail -1)"; echo "== $n $out"'
python3 "$HERE/tools/seed_meta.py" > /dev/null
