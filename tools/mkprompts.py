#!/usr/bin/env python3
"""tools/mkprompts.py <outdir> [round]: write one mutation-author prompt per property (given ONLY the property text and a scratch
worktree path <outdir>/<ID>); the sub-agents never see /verif."""
import json, os, sys
out = sys.argv[1]
rnd = int(sys.argv[2]) if len(sys.argv) > 2 else 1
KINDS = {
 "C01":"a rarely used operand form or storage path (1-D operands, scalar operands of the component kernel, a sparse operand with an empty/implicit-zero pattern, a product with a 1x1 factor) or a special shape threshold",
 "C02":"a boundary shape (1x1, 1xn, nx1) or a rarely used helper / call form (scalar form of the blocked embedding, component split of sparse input, non-contiguous input)",
 "C03":"the stopping logic or the returned histories (off-by-one in what is recorded, stopping one step late/early, a tolerance compared with the wrong residual), or the wide (m < n) branch",
 "C04":"an internal fault path or restart bookkeeping: lucky breakdown at a particular Arnoldi step, the LU-preconditioner fallback, the handling of the iteration cap, or state carried between restart cycles",
 "C05":"the truncated form, ordering of singular values / vectors, or wide inputs (m < n) - something that full-rank tall Gaussian matrices never show",
 "C06":"shape handling: the wide branch (m < n), m = 1 or n = 1, or the exact-zero pattern of R",
 "C07":"the pivot search or row-interchange bookkeeping for a particular shape class (tall m > n, wide m < n) or for ties in modulus, or the output assembly of one of the two output modes",
 "C08":"the eigenvalue/eigenvector pairing or ordering, the 1x1 / 2x2 special cases, or the Hermitian check tolerance",
 "C09":"the accumulation of the transformation P (order of factors, a skipped update) in a way that only shows for n >= 4 or for inputs with special structure",
 "C10":"one specific variant/shift combination only (for example the 'ds' or 'aed' variant, the experimental windowed variants, or quaternion_schur with shift='double'), in the deflation or accumulation logic",
 "C11":"the determinant functions (Dieudonne / Moore) or the left null space only, on special inputs (singular, 1x1, Hermitian indefinite, repeated singular values)",
 "C12":"the pass-efficient routine for a particular parity of n_passes, or the handling of oversample = 0 / sketches wider than the matrix",
 "C13":"the hybrid solver or the CGNE solver (not the plain sketch-and-project column variant): their stopping test, flag, or residual bookkeeping",
 "C14":"hidden state: a module-level or object-level cache / memo / default-argument object that makes a later call depend on an earlier one, or an in-place operation on a caller's array that only happens on a rare path",
 "C15":"the agreement between the different Frobenius entry points (legacy Krylov norms in component form with their optional arguments, tensor norm, unified interface) or the handling of 'ord' spellings",
 "C16":"the triangular solves (forward / backward / component form) for a particular number of right-hand sides or a particular size, or the degenerate branches of the rotation generator",
 "C17":"the restoration functions (FFT or matrix form) or the PSF builders, for non-square images, even kernel sizes or lambda = 0",
 "C18":"the metrics (PSNR / relative error), the noise injection, or the colour mapping - on edge inputs (constant images, all-zero reference, 1x1 images, integer dtypes)",
 "C19":"the complex-adjoint variant (power_iteration_nonhermitian) or the convergence / stagnation logic for negative dominant eigenvalues",
 "C20":"weaken (not delete) a guard so that it still rejects the obvious out-of-domain inputs but lets a particular class through (a tolerance, a partial comparison, an 'or' turned into 'and', a check made only for some dtype/shape), for an entry point other than tridiagonalize",
}
KINDS3 = {
 "C01":"the Frobenius norm / conjugate-transpose part of the property (not the product itself), or the scalar-times-matrix helpers of the sparse class",
 "C02":"the complex adjoint (2n x 2n) or the component-blocked embedding, for a special value pattern or shape",
 "C03":"the third-order solver, or the damped solver for gamma < 1, in a way that needs many iterations or a special spectrum (repeated / clustered / widely spread singular values) to show",
 "C04":"the truthfulness of the info record (residual, residual_true, iterations, residual_history, converged) for a particular configuration (sparse A, left_lu, a cap smaller than n, a loose tolerance)",
 "C05":"the full (untruncated) form for a special shape (1 x n, n x 1, square) or value pattern, without relying on rank deficiency or repeated singular values",
 "C06":"an effect that needs special VALUES rather than special shapes (exact zeros in particular positions, integer data, tiny or huge magnitudes, a particular sign pattern) on full-rank input",
 "C07":"the loud-failure clause (singular input) or the structure of the returned factors (exact ones / zeros, multipliers bounded by 1) rather than the reconstruction",
 "C08":"the tridiagonalisation (P, B) rather than the eigendecomposition: structure of B, unitarity of P, or the recursion for a particular size",
 "C09":"the cleaning / structure of H (entries below the sub-diagonal), or is_hessenberg, for inputs of special scale or structure",
 "C10":"the convergence flag / diagnostics record, or the behaviour for Hermitian input, for one particular variant",
 "C11":"rank() itself: its threshold, its behaviour under conjugate transpose or scaling, or for special shapes (1 x n, n x 1)",
 "C12":"rand_qsvd (not the pass-efficient routine): power iterations, the wide-sketch fallback branches, or the final lifting step",
 "C13":"the row variant (wide matrices) of the sketch-and-project solver, or the 'spd' column solver and its fallback",
 "C14":"reproducibility: a routine that draws random numbers stops being a pure function of the global seed (e.g. mixes in another generator, time, object identity or hash order) only under particular parameters",
 "C15":"the inequalities / homogeneity part: make one norm wrong only for a special class (rank-one, negative scalar multiple, rectangular with m < n, a single row or column)",
 "C16":"the Givens QR of the Hessenberg matrix (accumulated W, last-column rotation) for a particular k or pattern",
 "C17":"linearity / channel independence / mass preservation of the blur or the restoration, under a particular condition",
 "C18":"the tensor unfold/fold part for singleton dimensions or a particular mode, or the SNR of the noise injection for particular image shapes",
 "C19":"the returned eigenvalue estimate or the 'return_eigenvalue' / 'return_vector' / 'eigenvalue_format' call forms",
 "C20":"the 'does so before modifying anything' clause or the converse clause (an in-domain boundary argument - 1x1, 1xn, nx1, rank 0 - gets rejected) for some entry point",
}
KINDS4 = {
 "C01":"a fast path or alternative algorithm that is switched on by operand SIZE or sparsity DENSITY (for example only for more than 16 rows, more than 1000 stored entries, density above 50 percent, or when an inner dimension exceeds a block size), so that small test matrices never take it",
 "C02":"a blocked / vectorised construction that is only used above a size threshold (for example n > 8 or m*n > 64), or a code path chosen by the memory layout or dtype of the input",
 "C03":"behaviour that only differs for larger matrices (a dimension above 10..20): blocked products, a norm estimate instead of the exact norm for big inputs, a size-dependent default",
 "C04":"behaviour that only differs for larger systems (n between 10 and 40): restart / basis bookkeeping that is only wrong from some cycle number on, a size-dependent default cap, a preallocated buffer of fixed size",
 "C05":"a size- or aspect-dependent algorithm switch (dimension above 10..30), or a fixed-size workspace, that changes the result only for larger matrices",
 "C06":"a size-dependent algorithm switch or blocking (dimension above 10..30) in the QR, so that small matrices are unaffected",
 "C07":"blocked elimination or a size-dependent shortcut (m or n above 8..20): for example the pivot search or the rank-one update restricted to a window, only wrong for larger matrices",
 "C08":"behaviour that only differs for n above 8..20 (recursion depth, a blocked update, an iteration cap proportional to a constant instead of n)",
 "C09":"behaviour that only differs for n above 8..20 (a blocked / windowed application of the reflectors, an accumulation that skips columns beyond a fixed width)",
 "C10":"behaviour that only differs for n above 8..16 for one variant (window sizes, deflation checks limited to a fixed window, iteration budgets that do not scale with n)",
 "C11":"behaviour that only differs for larger matrices (dimension above 10..30) in rank / null space / determinant (for example a product of many singular values computed in a way that loses the sign or underflows, a threshold that scales wrongly with the dimension)",
 "C12":"behaviour that only differs when the target rank, the oversampling or the matrix dimension exceeds a threshold (R > 8, oversample > 10, min(m,n) > 20)",
 "C13":"behaviour that only differs for matrices with more than 8..16 columns or rows, i.e. larger than the default block size / test sketch size (the defaults are 8), or after many iterations",
 "C14":"state that only changes after an EXCEPTION was raised inside an earlier call, or only after more than three calls on the same object, or that depends on the size of an earlier problem being LARGER than the current one",
 "C15":"a norm that is computed by a different (cheaper) method above a size threshold (dimension above 10..30) or for sparse input above a density threshold",
 "C16":"behaviour that only differs for k or n above 8..20 (a fixed-size workspace, rotations applied to a limited window of columns, a loop bound that is a constant)",
 "C17":"behaviour that only differs for larger images (side above 16..32), for kernels wider than a threshold, or for strongly non-square images (aspect above 3)",
 "C18":"behaviour that only differs for larger tensors / images (a dimension above 8..32) or for a particular combination of singleton and non-singleton dimensions",
 "C19":"behaviour that only differs for n above 8..20 or after more than a threshold number of iterations (for example a periodic re-normalisation or an early-stagnation test every k-th iteration)",
 "C20":"a guard that is skipped or weakened for LARGE inputs ('too expensive to check', sampling only part of the entries, checking only a leading block) so that out-of-domain arguments above a size threshold are answered",
}
KINDS5 = {
 "C01":"a call form or argument relation rather than the data: the SAME array object passed as both factors (A @ A), an operand that is a view of the other, a result fed back as an operand, mixed dense/sparse operands in an unusual order, or an optional argument left at its default",
 "C02":"a rarely used call form: optional arguments omitted or passed as None, inputs that are views of each other, or helper variants (component-form functions such as Realp / A2A0123 and their inverses) for particular argument combinations",
 "C03":"the behaviour when optional constructor arguments are omitted or None (default gamma / tol / max_iter / compute_residuals / verbose), or when the returned tuple / history dictionary is used in a less common way (history keys, lengths, types)",
 "C04":"the behaviour for default or None arguments (tol, max_iter, preconditioner=None vs 'none'), for a right-hand side passed in a less common form (1-D array, several columns, a view of A), or the contents of less-used info keys",
 "C05":"the call forms: truncation rank R equal to min(m,n), R passed as numpy integer, or the relation between the three outputs (ordering of the tuple, shapes/dtypes of s) for particular inputs",
 "C06":"call forms and argument relations: input that is a view / slice of a larger array, a 1-D input, an input that is later modified (returned factors must not alias it), or dtype/shape of the outputs",
 "C07":"the return_p flag and output aliasing: the two output modes for the same input object called in sequence, outputs that share memory with the input or with each other, or the permutation output's dtype/exactness",
 "C08":"the wrappers (quaternion_eigenvalues, quaternion_eigenvectors) and optional arguments (verbose and similar), or outputs that alias the input / each other",
 "C09":"the helpers is_hessenberg / check_hessenberg and their optional tolerances (default vs explicit, None), or aliasing between the returned H, P and the argument",
 "C10":"the default arguments (max_iter / tol / shift omitted), the non-diagnostic return form (return_diagnostics=False vs True must give the same Q, T), or verbose mode",
 "C11":"the wrappers and options: quat_null_right / quat_null_left / quat_kernel vs quat_null_space(side=...), the optional rtol / tol arguments (default, None, explicit), and the determinant type spellings",
 "C12":"the default arguments (oversample, n_iter, n_passes omitted) or non-default but valid values (oversample=0, n_iter=0, n_passes=1), or R given as numpy integer",
 "C13":"constructor defaults (block_size, test_sketch_size, column_solver, seed omitted) and the info dictionary returned (keys, the 'converged' flag type, iteration counts) for default configurations",
 "C14":"aliasing and call forms: the same array passed to two parameters, an argument that is a view of another argument, results of a previous call passed back in, positional vs keyword calls - something that makes a function modify or depend on its arguments only in that form",
 "C15":"the 'ord' argument forms (None, 'fro', 'F', 1, 2, np.inf, float('inf'), strings) and the agreement of the specialised functions with the unified interface for default arguments",
 "C16":"call forms: right-hand sides given as 1-D arrays or as views of the matrix, the optional tol argument of the triangular solver (default vs explicit), or the exact return types/shapes",
 "C17":"optional arguments of the blur / restoration functions (boundary mode default vs explicit, lambda given as int or numpy scalar, PSF given as integer array or not normalised) ",
 "C18":"optional arguments and call forms of the tensor / metric / conversion helpers (data_range or peak value defaults, mode given as numpy integer, clip flags, seeds of the noise generator omitted or None)",
 "C19":"optional arguments (max_iterations, tol, return_eigenvalue, verbose omitted or None), the relation between the different return forms, or a start vector supplied by the caller if the API allows it",
 "C20":"guards that depend on HOW the argument is passed: keyword vs positional, numpy integer vs int for option values, list instead of array, a subclass / view / read-only array - an out-of-domain argument in such a form gets through, or an in-domain one in such a form is rejected",
}
KINDS6 = {'C01': 'NUMERICAL ROBUSTNESS: replace a numerically careful formula by the textbook one (or reorder operations) so that the result is wrong by far more than rounding error only for particular in-domain inputs - cancellation between nearly equal quantities, overflow / underflow of intermediate squares or products, division by a small but legitimate pivot, loss of orthogonality without re-orthogonalisation, an absolute tolerance where a relative one is needed - while ordinary well-scaled, well-conditioned inputs still give results accurate to rounding', 'C02': 'a SHARED HELPER rather than the routine the property names: put the change into a low-level utility that this routine depends on (for example in quatica/utils.py: quat_hermitian, quat_eye, real_expand / real_contract, timesQsparse, normQsparse, absQsparse, dotinvQsparse, A2A0123, quat_frobenius_norm, quat_matmat; in quatica/decomp: householder_vector / householder_matrix, qr_qua, quaternion_modulus, quaternion_triu; in data_gen.py), harmless for most of its callers and for ordinary inputs, but making THIS property fail for particular in-domain inputs', 'C03': 'a SHARED HELPER rather than the routine the property names: put the change into a low-level utility that this routine depends on (for example in quatica/utils.py: quat_hermitian, quat_eye, real_expand / real_contract, timesQsparse, normQsparse, absQsparse, dotinvQsparse, A2A0123, quat_frobenius_norm, quat_matmat; in quatica/decomp: householder_vector / householder_matrix, qr_qua, quaternion_modulus, quaternion_triu; in data_gen.py), harmless for most of its callers and for ordinary inputs, but making THIS property fail for particular in-domain inputs', 'C04': 'NUMERICAL ROBUSTNESS: replace a numerically careful formula by the textbook one (or reorder operations) so that the result is wrong by far more than rounding error only for particular in-domain inputs - cancellation between nearly equal quantities, overflow / underflow of intermediate squares or products, division by a small but legitimate pivot, loss of orthogonality without re-orthogonalisation, an absolute tolerance where a relative one is needed - while ordinary well-scaled, well-conditioned inputs still give results accurate to rounding', 'C05': 'a SHARED HELPER rather than the routine the property names: put the change into a low-level utility that this routine depends on (for example in quatica/utils.py: quat_hermitian, quat_eye, real_expand / real_contract, timesQsparse, normQsparse, absQsparse, dotinvQsparse, A2A0123, quat_frobenius_norm, quat_matmat; in quatica/decomp: householder_vector / householder_matrix, qr_qua, quaternion_modulus, quaternion_triu; in data_gen.py), harmless for most of its callers and for ordinary inputs, but making THIS property fail for particular in-domain inputs', 'C06': 'a SHARED HELPER rather than the routine the property names: put the change into a low-level utility that this routine depends on (for example in quatica/utils.py: quat_hermitian, quat_eye, real_expand / real_contract, timesQsparse, normQsparse, absQsparse, dotinvQsparse, A2A0123, quat_frobenius_norm, quat_matmat; in quatica/decomp: householder_vector / householder_matrix, qr_qua, quaternion_modulus, quaternion_triu; in data_gen.py), harmless for most of its callers and for ordinary inputs, but making THIS property fail for particular in-domain inputs', 'C07': 'NUMERICAL ROBUSTNESS: replace a numerically careful formula by the textbook one (or reorder operations) so that the result is wrong by far more than rounding error only for particular in-domain inputs - cancellation between nearly equal quantities, overflow / underflow of intermediate squares or products, division by a small but legitimate pivot, loss of orthogonality without re-orthogonalisation, an absolute tolerance where a relative one is needed - while ordinary well-scaled, well-conditioned inputs still give results accurate to rounding', 'C08': 'ITERATION / LOOP BOUNDARIES: an off-by-one or boundary slip in a loop range, an iteration budget (max_iter = 0, 1, exactly the value at which convergence happens, the last iteration), a restart or sweep count, an index at the last row / column / block, so that the property fails only when the boundary is hit', 'C09': 'a SHARED HELPER rather than the routine the property names: put the change into a low-level utility that this routine depends on (for example in quatica/utils.py: quat_hermitian, quat_eye, real_expand / real_contract, timesQsparse, normQsparse, absQsparse, dotinvQsparse, A2A0123, quat_frobenius_norm, quat_matmat; in quatica/decomp: householder_vector / householder_matrix, qr_qua, quaternion_modulus, quaternion_triu; in data_gen.py), harmless for most of its callers and for ordinary inputs, but making THIS property fail for particular in-domain inputs', 'C10': 'NUMERICAL ROBUSTNESS: replace a numerically careful formula by the textbook one (or reorder operations) so that the result is wrong by far more than rounding error only for particular in-domain inputs - cancellation between nearly equal quantities, overflow / underflow of intermediate squares or products, division by a small but legitimate pivot, loss of orthogonality without re-orthogonalisation, an absolute tolerance where a relative one is needed - while ordinary well-scaled, well-conditioned inputs still give results accurate to rounding', 'C11': 'a SHARED HELPER rather than the routine the property names: put the change into a low-level utility that this routine depends on (for example in quatica/utils.py: quat_hermitian, quat_eye, real_expand / real_contract, timesQsparse, normQsparse, absQsparse, dotinvQsparse, A2A0123, quat_frobenius_norm, quat_matmat; in quatica/decomp: householder_vector / householder_matrix, qr_qua, quaternion_modulus, quaternion_triu; in data_gen.py), harmless for most of its callers and for ordinary inputs, but making THIS property fail for particular in-domain inputs', 'C12': 'a SHARED HELPER rather than the routine the property names: put the change into a low-level utility that this routine depends on (for example in quatica/utils.py: quat_hermitian, quat_eye, real_expand / real_contract, timesQsparse, normQsparse, absQsparse, dotinvQsparse, A2A0123, quat_frobenius_norm, quat_matmat; in quatica/decomp: householder_vector / householder_matrix, qr_qua, quaternion_modulus, quaternion_triu; in data_gen.py), harmless for most of its callers and for ordinary inputs, but making THIS property fail for particular in-domain inputs', 'C13': 'NUMERICAL ROBUSTNESS: replace a numerically careful formula by the textbook one (or reorder operations) so that the result is wrong by far more than rounding error only for particular in-domain inputs - cancellation between nearly equal quantities, overflow / underflow of intermediate squares or products, division by a small but legitimate pivot, loss of orthogonality without re-orthogonalisation, an absolute tolerance where a relative one is needed - while ordinary well-scaled, well-conditioned inputs still give results accurate to rounding', 'C14': 'a SHARED HELPER rather than the routine the property names: put the change into a low-level utility that this routine depends on (for example in quatica/utils.py: quat_hermitian, quat_eye, real_expand / real_contract, timesQsparse, normQsparse, absQsparse, dotinvQsparse, A2A0123, quat_frobenius_norm, quat_matmat; in quatica/decomp: householder_vector / householder_matrix, qr_qua, quaternion_modulus, quaternion_triu; in data_gen.py), harmless for most of its callers and for ordinary inputs, but making THIS property fail for particular in-domain inputs', 'C15': 'a SHARED HELPER rather than the routine the property names: put the change into a low-level utility that this routine depends on (for example in quatica/utils.py: quat_hermitian, quat_eye, real_expand / real_contract, timesQsparse, normQsparse, absQsparse, dotinvQsparse, A2A0123, quat_frobenius_norm, quat_matmat; in quatica/decomp: householder_vector / householder_matrix, qr_qua, quaternion_modulus, quaternion_triu; in data_gen.py), harmless for most of its callers and for ordinary inputs, but making THIS property fail for particular in-domain inputs', 'C16': 'NUMERICAL ROBUSTNESS: replace a numerically careful formula by the textbook one (or reorder operations) so that the result is wrong by far more than rounding error only for particular in-domain inputs - cancellation between nearly equal quantities, overflow / underflow of intermediate squares or products, division by a small but legitimate pivot, loss of orthogonality without re-orthogonalisation, an absolute tolerance where a relative one is needed - while ordinary well-scaled, well-conditioned inputs still give results accurate to rounding', 'C17': 'a SHARED HELPER rather than the routine the property names: put the change into a low-level utility that this routine depends on (for example in quatica/utils.py: quat_hermitian, quat_eye, real_expand / real_contract, timesQsparse, normQsparse, absQsparse, dotinvQsparse, A2A0123, quat_frobenius_norm, quat_matmat; in quatica/decomp: householder_vector / householder_matrix, qr_qua, quaternion_modulus, quaternion_triu; in data_gen.py), harmless for most of its callers and for ordinary inputs, but making THIS property fail for particular in-domain inputs', 'C18': 'a SHARED HELPER rather than the routine the property names: put the change into a low-level utility that this routine depends on (for example in quatica/utils.py: quat_hermitian, quat_eye, real_expand / real_contract, timesQsparse, normQsparse, absQsparse, dotinvQsparse, A2A0123, quat_frobenius_norm, quat_matmat; in quatica/decomp: householder_vector / householder_matrix, qr_qua, quaternion_modulus, quaternion_triu; in data_gen.py), harmless for most of its callers and for ordinary inputs, but making THIS property fail for particular in-domain inputs', 'C19': 'NUMERICAL ROBUSTNESS: replace a numerically careful formula by the textbook one (or reorder operations) so that the result is wrong by far more than rounding error only for particular in-domain inputs - cancellation between nearly equal quantities, overflow / underflow of intermediate squares or products, division by a small but legitimate pivot, loss of orthogonality without re-orthogonalisation, an absolute tolerance where a relative one is needed - while ordinary well-scaled, well-conditioned inputs still give results accurate to rounding', 'C20': 'a SHARED HELPER rather than the routine the property names: put the change into a low-level utility that this routine depends on (for example in quatica/utils.py: quat_hermitian, quat_eye, real_expand / real_contract, timesQsparse, normQsparse, absQsparse, dotinvQsparse, A2A0123, quat_frobenius_norm, quat_matmat; in quatica/decomp: householder_vector / householder_matrix, qr_qua, quaternion_modulus, quaternion_triu; in data_gen.py), harmless for most of its callers and for ordinary inputs, but making THIS property fail for particular in-domain inputs'}
KIND7 = ("the part of the property that is HARDEST TO CHECK AUTOMATICALLY. First list the individual clauses of the statement and the corners of the quantified domain. Then pick the clause or corner that you judge least likely to be exercised by an automated checker that samples inputs and compares results with independent reference computations - for example a clause that needs TWO conditions at the same time (a particular option together with a particular input class, a particular output mode together with a particular shape), a clause about what must NOT happen, a secondary output or diagnostic field, an extreme of a quantifier range, or an interaction between two features that are each tested alone - and break ONLY that, leaving every other clause of the property intact on all inputs")
T = '''You are helping to evaluate a verification tool for the open-source Python library QuatIca (quaternion numerical linear algebra). Your job: act as a "mutation author". You are given ONE semantic property that the library is supposed to satisfy, and your own scratch git worktree of the repository. Produce a realistic, subtle code change to the library that BREAKS this property while the library still imports fine and the repository's existing test suite still passes.

## The property
Title: {title}

Statement: {statement}

Quantified over: {quant}

Code anchored in: {files}

## Your workspace
- Your scratch git worktree of the repository is `{wt}` (a detached checkout). Work ONLY inside this directory. Do NOT read, list or touch `/verif` or `/repo` or any sibling directory of your worktree - the point is that your change is independent of what the verification tool already checks.
- Python interpreter with all dependencies: `/venv/bin/python` (numpy, numpy-quaternion as `import quaternion`, scipy, pytest). No network.
- The library lives in `{wt}/quatica` (modules utils.py, solver.py, tensor.py, qslst.py, data_gen.py, decomp/*.py) and `{wt}/applications`. Tests are in `{wt}/tests`; they import the library in "flat" style: `sys.path.append(<repo>/quatica); from utils import ...`. To use your worktree from a script do:
  `import sys; sys.path.insert(0, "{wt}/quatica"); sys.path.insert(1, "{wt}")` and then e.g. `from utils import quat_matmat`, `from solver import QGMRESSolver`, `from decomp.qsvd import qr_qua`.
- Run the relevant existing tests with: `cd {wt} && /venv/bin/python -m pytest -q -p no:cacheprovider <test files>` (the whole suite takes ~30 minutes; run at least every test file that exercises the code you touch - find them with grep - and they must all still pass with your change; skip tests/QGMRES/test_qgmres_large.py unless you touch the Q-GMRES code, it alone takes 20 minutes).

## What to produce
A change that needs something SPECIFIC to manifest - for example an unusual but in-domain input (a particular shape, rank, multiplicity pattern, sign pattern, memory layout, size threshold, parameter combination), a multi-step sequence of calls (state carried from one call to the next), a particular random seed / iteration count / internal fallback path, or two cooperating edits that each look harmless alone. NOT something that ordinary use or the existing tests would expose at once, and NOT something artificial like `if n == 7: return garbage` keyed on a magic value with no plausible motivation: it should look like a plausible refactoring slip, "optimisation", off-by-one, wrong branch condition, stale cache, dropped copy, wrong tolerance, swapped operand order in a rarely-taken branch, etc.
{kind}The change must make the property (as stated above) false on at least one concrete in-domain input/history, and must not be a pure performance change. Note that the library is not perfect: before settling on an input for your demonstration, check that the UNMODIFIED code satisfies the property on it (e.g. some decompositions are already inaccurate for rank-deficient inputs or repeated singular values - do not build on those).

Deliverables, all inside `{wt}/_out/` (create it):
1. `patch.diff` - output of `git -C {wt} diff` (only library/application source files; do not edit tests; do not include `_out`).
2. `demo.py` - a small standalone program, run as `/venv/bin/python {wt}/_out/demo.py <repo_root>`, that imports the library from `<repo_root>` (argument 1; use the sys.path lines above with that root), exercises the property on the specific input/history, and exits with status 1 (printing what went wrong) when the property is violated and 0 when it holds. It must exit 1 on your modified worktree and 0 on an unmodified checkout - verify both: for the unmodified run, export a pristine copy with `mkdir -p {wt}/_out/orig && git -C {wt} archive HEAD | tar -x -C {wt}/_out/orig` and run the demo against that copy. Do NOT use `git stash` (the stash is shared between worktrees and other agents are working in parallel).
3. `meta.json` - {{"property": "{pid}", "summary": "<one sentence: what the change does>", "needs": "<what specific input / sequence / seed / path is needed for it to manifest>", "files_touched": [...], "tests_run": "<the pytest command(s) you ran and their result>"}}.

Finally reply with a short report: the diff, how the demo fails with / passes without the change, and which tests you ran. Keep the patch small (a few lines).'''
os.makedirs(os.path.join(out, "prompts"), exist_ok=True)
for l in open("/verif/properties.jsonl"):
    p = json.loads(l); pid = p["id"]; wt = os.path.join(out, pid)
    kind = ""
    if rnd == 2:
        kind = f"For this task, aim your change at: {KINDS[pid]}.\n"
    if rnd == 3:
        kind = f"For this task, aim your change at: {KINDS3[pid]}.\n"
    if rnd == 4:
        kind = f"For this task, aim your change at: {KINDS4[pid]}.\n"
    if rnd == 5:
        kind = f"For this task, aim your change at: {KINDS5[pid]}.\n"
    if rnd >= 14:
        kind = ("For this task you choose the mechanism yourself. A verification tool has already been hardened against many rounds of seeded changes "
                "of the following kinds, so AVOID all of them: wrong constants / signs / operand order on generic inputs; special values and sign "
                "patterns (exact zeros, ties, signed zeros, dyadic data); shape corners (1 x n, n x 1, extreme aspect ratios) and size thresholds / "
                "blocked loops; memory layout, dtype and numpy-scalar handling; call forms (keyword / positional / explicit defaults / verbose / return "
                "arities); caches, retained buffers, aliasing of arguments, state on solver objects, in-place modification; random-stream handling; "
                "extreme magnitudes; scipy.sparse storage forms and empty component planes; option x input-class fast paths; cleanup thresholds and "
                "other silent accuracy losses; tolerances ignored or hard-wired; algorithm substitutions valid only under commutativity / definiteness / "
                "full rank / distinctness / normality; failure handling (swallowed exceptions, silent fallbacks, early returns, flags computed from stale "
                "quantities); structured inputs such as Hermitian, hollow, nilpotent, reducible, badly scaled or graded matrices" + ("; NEAR-coincidences "
                "(np.isclose / allclose with default rtol: near ties, near-equal values, operands near A^H, near-real or near-unit data); classical "
                "worst-case matrices (Kahan, glued Wilkinson, spiky-versus-flat rows, singular-value clusters ten orders apart); recurrences "
                "restarted or frozen after many steps; rare random starts; module-level scratch buffers under concurrent callers; container or "
                "shape coincidences with the number 4" if rnd >= 15 else "") + ("; the process environment (numpy error state / warnings as errors); "
                "index-dtype overflow for huge logical shapes; configuration written back to a solver object by a public entry point; value-range "
                "heuristics ('looks like 8-bit data'); pivots or entries that are tiny but not zero; finding-prone regimes such as rank-deficient or "
                "repeated-singular-value input (the tool knows those and does not excuse anything else there)" if rnd >= 16 else "") + ". Think about what a "
                "checker that samples inputs (including all of the above classes) and compares with independent references would STILL be least "
                "likely to notice for this particular property, and build your change there. Explain in meta.json why you expect it to be missed.\n")
    elif rnd >= 13:
        kind = ("For this task, aim your change at FAILURE HANDLING and the boundary between 'answers' and 'refuses': the places where the code detects "
                "that it cannot proceed (breakdowns, zero pivots, non-convergence, invalid or degenerate input, exceptions from a helper, fallbacks to another "
                "method). Realistic slips: an exception that is now swallowed (try/except returning a default, a partial or a stale result instead of "
                "raising); a fallback path that is taken silently and returns something of lower quality while the flags / diagnostics still say success; "
                "a breakdown or convergence test moved so that the flag is computed before the last update (or from a different quantity than the one "
                "returned); a loud failure turned into NaN / inf / zeros in the output; a validation that now runs AFTER the inputs have been touched; "
                "an early return that skips a post-processing step which the property relies on (sorting, sign normalisation, trimming, symmetrisation, "
                "recomputing the reported residual); a retry loop that returns the best-so-far although it reports the last. The change must make the "
                "property false on an in-domain input (or, for the domain-guard property, make an out-of-domain input be answered / an in-domain input be "
                "refused). Do not reuse mechanisms from earlier rounds (cleanup thresholds, extreme magnitudes, dtype handling, caches and object state, "
                "memory layout, sparse storage forms, option fast paths, algorithm substitutions).\n")
    elif rnd >= 12:
        kind = ("For this task, aim your change at an ALGORITHM SUBSTITUTION: replace a step (or the whole method) by a cheaper or simpler alternative that is "
                "mathematically equivalent ONLY under an assumption which the property's domain does not guarantee, so that it is right on ordinary inputs "
                "and wrong where the assumption fails. Typical assumptions: commutativity (quaternion scalars and matrices do NOT commute: q*A versus A*q, "
                "(AB)^H versus A^H B^H, conj(p*q) versus conj(p)*conj(q), a quaternion 'division' on the wrong side), positive definiteness or "
                "non-negativity (eigenvalues versus singular values, sqrt of a Gram matrix, Cholesky for LU), full rank (normal equations, inverse for "
                "pseudoinverse), distinct or simple eigen/singular values, normality or Hermitian-ness (eigen-decomposition for SVD), real or complex-"
                "subfield entries (treating i, j, k alike, dropping a component that is 'usually' zero), square or tall shape, unit norm of something that "
                "is only approximately normalised, symmetry of a kernel, periodicity. Pick a substitution whose failing inputs are IN the property's "
                "domain but unusual enough that sampled generic inputs do not hit them; do not reuse the mechanisms already used in earlier rounds "
                "(thresholds / cleanups of small entries, extreme magnitudes, dtype handling, caches and object state, memory layout, sparse storage "
                "forms, option x input-class fast paths that are merely buggy copies).\n")
    elif rnd >= 11:
        kind = ("For this task, aim your change at a silent loss of ACCURACY: after the change the results still look right (shapes, structure, "
                "convergence flags, rough values) but a quantitative clause of the property no longer holds to the accuracy the unmodified code "
                "achieves - errors of relative size roughly 1e-11 .. 1e-4 where the unmodified code is accurate to about 1e-14 (or to the tolerance the "
                "caller passed). Typical realistic sources: an intermediate stored or accumulated in float32 / a cast through a lower precision; a small "
                "regularisation or 'safety' term (ridge, eps added to a denominator, clipping) that perturbs legitimate values; an internal tolerance or "
                "iteration count loosened or hard-wired instead of following the caller's; one refinement / re-orthogonalisation / normalisation step "
                "dropped; a truncated series or approximated constant; a convergence test on the wrong (weaker) quantity; rounding introduced by a "
                "'cleanup' of small entries with too large a threshold. The change may affect generic inputs or only a class of them, but it must NOT "
                "produce grossly wrong results (relative error above 1e-3) on any input - the point is whether a checker's tolerances are tight enough. "
                "Your demo must measure the relevant error against an independent high-accuracy reference (for example numpy / scipy on the real or "
                "complex embedding) and use a threshold that the unmodified code passes with a margin of at least 100.\n")
    elif rnd >= 10:
        kind = ("For this task, aim your change at a COMBINATION: it must manifest ONLY when a NON-DEFAULT value of an option, optional argument, call form or "
                "output mode of an entry point the property covers (for example verbose, return_* flags, variant / shift / preconditioner / column_solver / "
                "eigenvalue_format / side / ord names, compute_residuals, explicitly passed tolerances or budgets, oversample / n_iter / window / block sizes, "
                "the sparse versus dense form of an operand, a 1-D versus 2-D right-hand side, several right-hand sides) is COMBINED with a particular class of "
                "in-domain inputs (triangular, diagonal, Hermitian, already converged or already reduced, rank-deficient where the property covers it, 1x1, a "
                "zero right-hand side, one dimension equal to 1, ...). With the default options the property must still hold for ALL inputs, and with that "
                "option it must still hold for ordinary (generic random) inputs. If the entry points of this property have no options at all, combine two "
                "input features instead (for example a storage form with a shape relation). The following kinds of change have been used already and must "
                "NOT be used again: extreme magnitudes or scale-dependent thresholds; dtype handling and numpy-scalar argument types; size thresholds and "
                "blocked loops; caches, retained buffers, state on solver objects; random number stream handling; memory layout; in-place modification of "
                "arguments; non-canonical scipy.sparse storage (duplicates, unsorted indices).\n")
    elif rnd >= 9:
        kind = (f"For this task, aim your change at: {KIND7}. The following kinds of change have been used already and must NOT be used again: "
                "extreme magnitudes or scale-dependent thresholds; tolerances of zero / Hermitian / triangularity tests; dtype handling and numpy-scalar "
                "argument types; size thresholds and blocked / panelled loops; caches, memoisation, retained buffers, state on solver objects; random "
                "number stream handling; memory layout (ravel order, views, transposes); in-place modification of arguments. Find something else: an "
                "algorithmic slip inside a rarely taken branch, a wrong index or sign or conjugation that only matters for inputs with a particular "
                "exact structure (exact zeros at particular positions, ties, repeated values, a particular ordering of values, a particular parity or "
                "relation between dimensions such as m = n + 1), a wrong choice between two mathematically different but often coinciding quantities, "
                "or an output that is right in value but wrong in a secondary aspect the property states (ordering, sign convention, shape, which of "
                "several outputs).\n")
    elif rnd == 8:
        kind = (f"For this task, aim your change at: {KIND7}. Do NOT rely on extreme magnitudes (entries or norms below 1e-12 or above 1e12) "
                "and do not rely on identity-keyed caches of arguments: look for a logical, structural or combinatorial corner instead "
                "(a particular combination of options, shapes, ranks, orderings, output modes, special values such as exact zeros / ties / "
                "repeated values, or a clause about a secondary output).\n")
    elif rnd == 7:
        kind = f"For this task, aim your change at: {KIND7}.\n"
    elif rnd == 6:
        _H, _N, _B = KINDS6["C02"], KINDS6["C01"], KINDS6["C08"]
        _k = _B if pid in ("C03", "C08", "C10", "C12", "C13", "C19") else (_N if pid in ("C01", "C04", "C07", "C16", "C15", "C06") else _H)
        kind = f"For this task, aim your change at: {_k}.\n"
    txt = T.format(title=p["title"], statement=p["statement"], quant=p["quantifier"]["text"], files=", ".join(p["anchors"]["files"]), wt=wt, pid=pid, kind=kind)
    open(os.path.join(out, "prompts", pid + ".txt"), "w").write(txt)
print("prompts in", os.path.join(out, "prompts"))
