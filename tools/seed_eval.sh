#!/bin/bash
# tools/seed_eval.sh <ID> [srcdir=/tmp/seed/<ID>/_out] [name=<ID>]
# Confirms a sub-agent's seeded change in fresh scratch worktrees (demo passes without / fails with the patch),
# runs the owner's quick (and, if missed, thorough) check against it, and stores it under seeded/<name>/.
ID="$1"; SRC="${2:-/tmp/seed/$ID/_out}"; NAME="${3:-$ID}"
HERE="$(cd "$(dirname "${BASH_SOURCE[0]}")/.." && pwd)"
[ -f "$SRC/patch.diff" ] || { echo "no patch in $SRC"; exit 9; }
WT="$(mktemp -d /tmp/vqe-XXXXXX)"; rmdir "$WT"
git -C /repo worktree add -q --detach "$WT" HEAD || exit 9
cleanup() { git -C /repo worktree remove --force "$WT" >/dev/null 2>&1; rm -rf "$WT" "$WT.clean.log" "$WT.mut.log"; }
trap cleanup EXIT
/venv/bin/python "$SRC/demo.py" "$WT" > "$WT.clean.log" 2>&1; rc_clean=$?
if ! git -C "$WT" apply "$SRC/patch.diff"; then echo "PATCH DOES NOT APPLY to /repo HEAD"; exit 8; fi
/venv/bin/python "$SRC/demo.py" "$WT" > "$WT.mut.log" 2>&1; rc_mut=$?
echo "demo: unmodified rc=$rc_clean, with patch rc=$rc_mut"
tail -n 3 "$WT.mut.log" | cut -c1-200
git -C "$WT" checkout -q -- . 
mkdir -p "$HERE/seeded/$NAME"
[ "$(realpath "$SRC")" = "$(realpath "$HERE/seeded/$NAME")" ] || cp "$SRC/patch.diff" "$SRC/demo.py" "$HERE/seeded/$NAME/"
[ -f "$SRC/meta.json" ] && [ "$(realpath "$SRC")" != "$(realpath "$HERE/seeded/$NAME")" ] && cp "$SRC/meta.json" "$HERE/seeded/$NAME/meta.agent.json"
for tier in quick thorough; do
  out="$("$HERE/tools/mutant.sh" "$HERE/seeded/$NAME/patch.diff" "$ID" "$tier" 0 2>&1)"; rc=$?
  nv=$(echo "$out" | grep -c '^VIOLATION')
  echo "check $ID $tier: rc=$rc violations=$nv"
  echo "$out" | grep -m3 'clause=' | cut -c1-220
  echo "$out" > "$HERE/seeded/$NAME/check_$tier.log"
  [ $rc -eq 1 ] && [ "$nv" -gt 0 ] && { echo "RESULT: CAUGHT by $tier"; break; }
  [ "$tier" = thorough ] && echo "RESULT: MISSED"
done
