#!/bin/bash
# tools/sweep.sh <ID> <tier> <seed>... : run a check for several seeds into a scratch output dir (never /verif/evidence)
ID="$1"; TIER="$2"; shift 2
HERE="$(cd "$(dirname "${BASH_SOURCE[0]}")/.." && pwd)"
OUT="$(mktemp -d /tmp/vqs-XXXXXX)"
rc_all=0
for s in "$@"; do
  VQ_OUT="$OUT" "$HERE/check" "$ID" --tier "$TIER" --seed "$s" > "$OUT/log-$s.txt" 2>&1; rc=$?
  echo "$ID $TIER seed=$s rc=$rc: $(grep -v '^KNOWN-FINDING' "$OUT/log-$s.txt" | tail -n 1)"
  if [ $rc -ne 0 ]; then rc_all=$rc; grep -E 'VIOLATION|INCONCLUSIVE|clause=' "$OUT/log-$s.txt" | head -20; fi
done
rm -rf "$OUT"
exit $rc_all
