#!/bin/bash
# tools/sweep_all.sh <tier> <seed>... : every check, given tier, several seeds; output to a scratch dir; prints non-zero exits
TIER="$1"; shift
HERE="$(cd "$(dirname "${BASH_SOURCE[0]}")/.." && pwd)"
OUT="$(mktemp -d /tmp/vqsa-XXXXXX)"
bad=0
for s in "$@"; do
  for i in $(seq -w 1 20); do
    id="C$i"
    VQ_OUT="$OUT" "$HERE/check" "$id" --tier "$TIER" --seed "$s" > "$OUT/$id-$s.log" 2>&1; rc=$?
    line="$(grep -v '^KNOWN-FINDING' "$OUT/$id-$s.log" | tail -n 1 | cut -c1-150)"
    echo "$id $TIER seed=$s rc=$rc $line"
    if [ $rc -ne 0 ]; then bad=$((bad+1)); grep -E 'VIOLATION|INCONCLUSIVE|clause=' "$OUT/$id-$s.log" | head -8; fi
  done
done
echo "sweep_all: $bad non-zero exits"
rm -rf "$OUT"
