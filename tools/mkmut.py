#!/usr/bin/env python3
"""tools/mkmut.py <ID> <name> <repo-relative file> <old> <new> [count]
Create mutants/<ID>/<name>.diff: a git-style patch replacing the (count-th, default only) occurrence of <old> by <new>."""
import difflib, os, sys
pid, name, rel, old, new = sys.argv[1:6]
which = int(sys.argv[6]) if len(sys.argv) > 6 else None
repo = os.environ.get("VQ_REPO", "/repo")
src = open(os.path.join(repo, rel)).read()
old = old.replace("\\n", "\n"); new = new.replace("\\n", "\n")
n = src.count(old)
if n == 0:
    sys.exit(f"pattern not found in {rel}")
if n > 1 and which is None:
    sys.exit(f"pattern occurs {n} times in {rel}; give an index")
if which is None:
    dst = src.replace(old, new)
else:
    parts = src.split(old)
    dst = old.join(parts[:which + 1]) + new + old.join(parts[which + 1:])
diff = "".join(difflib.unified_diff(src.splitlines(True), dst.splitlines(True), "a/" + rel, "b/" + rel))
d = os.path.join(os.path.dirname(os.path.dirname(os.path.abspath(__file__))), "mutants", pid)
os.makedirs(d, exist_ok=True)
open(os.path.join(d, name + ".diff"), "w").write(diff)
print(f"mutants/{pid}/{name}.diff ({len(diff.splitlines())} lines)")
