#!/usr/bin/env python3
"""Regenerate /verif/MANIFEST.json from the per-property table below and the
monitor modules that exist under vq/monitors (a property without a monitor
module is listed under not_applicable with the reason given here).

Usage: python3 tools/gen_manifest.py          (writes MANIFEST.json, validates if jsonschema is available)
"""
import json
import os
import sys

HERE = os.path.dirname(os.path.dirname(os.path.abspath(__file__)))

BASELINE_OFF = ("cd /repo && env -u QUATICA_VERIF /venv/bin/python -m pytest -ra -q -p no:cacheprovider "
                "--timeout=900 --continue-on-collection-errors")

# id -> (level category, technique, level text, level note, design ref)
T = {
 "C01": ("exploration",
         "runtime monitor on the real product kernels vs exact-rational Hamilton oracle; exhaustive basis-unit enumeration",
         "Every storage path of the product (dense, sparse x dense, dense x sparse, sparse x sparse, @, timesQsparse on ndarray/"
         "scipy-sparse/scalar operands) is executed on the exhaustive 16 basis-unit pairs at every position of small shapes (exact "
         "comparison) and on hostile entry classes (exact rational oracle with a rigorous forward bound); the laws (involution, "
         "product reversal, norm invariances, sub-multiplicativity) are judged on the same executions.",
         "Oracle: Fraction arithmetic and numpy-quaternion's scalar multiply; linearity of each path is observed on the classes, "
         "not proved; magnitudes beyond 1e+-140 excluded.", "7/C01"),
 "C02": ("exploration",
         "runtime monitor: entrywise comparison of returned embeddings with an independently computed left-regular representation",
         "real_expand / Realp / complex adjoint / contraction / component split are executed on exhaustive basis-unit placements "
         "and on entry classes and compared bit-for-bit with embeddings computed from products of basis units; homomorphism, "
         "*-map, linearity and norm-factor laws judged on the returned matrices.",
         "Oracle embeddings in vq/oracle/embed.py (self-tested at the start of every shard).", "7/C02"),
 "C03": ("exploration",
         "trajectory monitor: iterate returned for every budget k compared with the spectral model of the recurrence; history truthfulness recomputed by oracle",
         "The real solvers are run for every iteration budget k on matrices with prescribed singular spectra (all shapes/ranks); "
         "each returned iterate is compared with V diag(t_k/s) U^H, residual/covariance histories are recomputed from the "
         "returned iterates, monotonicity, stop accuracy and the Penrose limit are judged.",
         "Spectral model evaluated in float64 from the generator's ground truth; bounded-progress restatement of 'tends to'.", "7/C03"),
 "C04": ("fault_enumeration",
         "runtime monitor on solve(): oracle residual/Krylov-optimality per restart cycle (iteration caps 0..n), sys.monitoring reach counters on fault branches, failpoint on the LU callee",
         "Every restart iterate is observed through the iteration cap; truthfulness of info, soundness of the converged flag, "
         "per-cycle Krylov optimality (oracle Arnoldi + least squares), finite termination, invariance under preconditioning/"
         "scaling/storage are judged; breakdown at every Arnoldi step and the LU fallback are driven and their reach is counted.",
         "Oracle: complex-adjoint solves (LAPACK), oracle-side Arnoldi; a zero diagonal in the small triangular solve is reported "
         "inconclusive when not reached rather than forced.", "7/C04"),
 "C05": ("exploration",
         "runtime monitor on classical_qsvd(_full) vs complex-adjoint singular values on prescribed multiplicity patterns",
         "Q-SVD is executed on matrices built with prescribed singular-value multiplicity patterns (simple, k-fold repeats, "
         "multiple zeros, rectangular); values, orthonormality, reconstruction and the Eckart-Young identity for every "
         "truncation rank are judged with backward-error bounds.",
         "Ground-truth spectra from the generator; LAPACK svd of the complex adjoint as value oracle.", "7/C05"),
 "C06": ("exploration",
         "runtime monitor on qr_qua: shape, orthonormality, exact triangularity, backward error on shape/rank classes",
         "qr_qua is run on tall/square/wide, full-rank/rank-deficient/zero-column, integer and pure-imaginary inputs; each "
         "returned (Q,R) is judged against the definition with backward-error bounds.",
         "Float reference algebra (numpy-quaternion scalar multiply).", "7/C06"),
 "C07": ("exploration",
         "runtime monitor on quaternion_lu with exhaustive enumeration of all m! forced pivot orders, both output modes",
         "Inputs A = P^T L U force each of the m! pivot orders (m <= 4 quick, <= 5 thorough; square, tall, wide); the structural "
         "clauses are compared exactly and the reconstruction with a backward bound, for both output modes; singular classes must "
         "be loud or exact.",
         "Backward-error constant c=100; exceptions on uniformly tiny nonsingular input not judged.", "7/C07"),
 "C08": ("exploration",
         "runtime monitor on tridiagonalize / quaternion_eigendecomposition vs prescribed Hermitian spectra",
         "Hermitian inputs with prescribed spectra (repeats, zeros, clusters, diagonal/tridiagonal, integer, zero sub-columns, "
         "scalings) are reduced by the real routines; unitarity, exact real tridiagonal structure, similarity, eigenvalues vs "
         "oracle, eigen-residual and reconstruction are judged; rejection of non-Hermitian / non-square input asserted.",
         "Oracle eigenvalues via eigvalsh of the complex adjoint.", "7/C08"),
 "C09": ("exploration",
         "runtime monitor on hessenbergize: unitarity, structure, similarity, norm and shifted singular-value invariants",
         "hessenbergize is run on structured classes; P unitary, H Hessenberg to rounding, H = P A P^H, ||H||=||A|| and the "
         "singular values of H - mu I vs A - mu I (unitary-similarity invariants) are judged.",
         "Invariants compared via LAPACK on the complex adjoint.", "7/C09"),
 "C10": ("exploration",
         "runtime monitor on every Schur variant x shift x budget: unitarity, similarity, converged-flag soundness",
         "Every Schur entry point / variant / shift is run under every iteration budget (incl. budgets too small to converge) on "
         "input classes with known spectrum; Q unitary and A = Q T Q^H are judged for every run, triangularity (and real "
         "diagonal = oracle eigenvalues for Hermitian input) whenever the diagnostics report convergence.",
         "Tolerance-governed bounds derived from the variant's own deflation threshold.", "7/C10"),
 "C11": ("exploration",
         "runtime monitor on rank / null-space / det entry points vs generator ground truth and complex-adjoint oracle",
         "rank, the four null-space entry points and both determinants are run on matrices of every rank 0..min(m,n) with "
         "singular values well away from the thresholds; rank laws and determinant laws are judged on oracle-made factor products.",
         "Cases with an oracle singular value within a factor 8 of a rank threshold are skipped as ambiguous.", "7/C11"),
 "C12": ("exploration",
         "runtime monitor on rand_qsvd / pass_eff_qsvd under seeded global RNG (seed sweep) vs oracle singular values",
         "Both randomized routines are run over shapes, sketch regimes, rank classes and seeds of the global generator; shapes, "
         "orthonormality, ordering, interlacing s_i <= sigma_i, error bracket and exactness on low rank are judged per draw.",
         "Seeds stand for 'schedules'; oracle singular values from LAPACK on the complex adjoint.", "7/C12"),
 "C13": ("exploration",
         "runtime monitor on RSP / hybrid / CGNE solvers under seed sweeps: converged flag vs oracle residual and pseudoinverse distance",
         "Solvers are run over conditioning, block sizes, column solvers, hyperpower orders, tolerances and seeds; whenever "
         "converged=True the true residual (within a chi-square-derived multiple of tol) and the distance to the oracle "
         "pseudoinverse are judged; residual histories are recomputed for the returned iterate; CGNE must converge with "
         "non-increasing residuals.",
         "Probabilistic slack K chosen so that a false alarm has probability < 1e-12 per evaluation.", "7/C13"),
 "C14": ("exploration",
         "offline history checker: every call sequence of length <= 3 on a reused solver object vs a fresh-object table; argument byte digests before/after; seed functionality; two import styles in subprocesses",
         "All histories of up to 3 problems per solver class/configuration are executed on one reused object and each call's "
         "result digest is compared with a fresh object's; __dict__ and argument bytes are digested before/after every public "
         "call in several memory layouts; RNG routines are checked to be functions of the seed; package and flat imports are "
         "compared bit-for-bit in separate processes.",
         "Digest equality (bitwise); wall-clock fields excluded.", "7/C14"),
 "C15": ("exploration",
         "runtime monitor on all norm entry points vs exact-rational / LAPACK definitions and norm laws",
         "Each norm entry point is run on all entry classes and shapes and compared with its definition (exact rational "
         "root-sum-of-squares; column/row sums; sigma_1 of the complex adjoint); homogeneity, triangle, sub-multiplicativity "
         "and the mixed inequalities are judged on pairs incl. adversarial ones; unknown ord spellings must raise.",
         "Forward bounds T2; spectral norm vs LAPACK.", "7/C15"),
 "C16": ("exploration",
         "runtime monitor on Givens / Hessenberg-QR / triangular-solve kernels, also interposed inside real Q-GMRES runs",
         "Rotation grids over degenerate pairs and both ordering branches, Hessenberg patterns with zero sub-diagonals/columns, "
         "triangular systems with diagonal moduli 1e-6..1e6 and 1..4 right-hand sides; every kernel call made by real Q-GMRES "
         "runs is judged as well (invariant at a hook).",
         "Backward-error bounds T3; kernels called on copies.", "7/C16"),
 "C17": ("exploration",
         "runtime monitor on blur / restoration / matrix builders vs convolution-by-definition and explicit BCCB oracle",
         "apply_blur_fft, both restorations and both matrix builders are run on all image sizes up to the tier bound with "
         "symmetric, asymmetric, even/odd and single-tap kernels; outputs are compared with the centred periodic convolution "
         "evaluated by definition and with the normal equations of the oracle's explicit matrix; linearity, channel "
         "independence and the lambda->0 limit judged.",
         "Oracle: quadruple-loop convolution and dense normal-equation solve.", "7/C17"),
 "C18": ("exploration",
         "runtime monitor with unique-id tensors (each entry names its own index) for fold/unfold; exact round trips; concentration-bounded SNR statistics",
         "Unique-id tensors of every shape in the tier's cube and every mode decide the fibre clause by reading indices off the "
         "returned unfolding; round trips compared exactly; metrics on equal / one-entry-different pairs; SNR over seeded draws "
         "with an 8-sigma concentration bound.",
         "Differences whose square underflows are excluded from the MSE clause.", "7/C18"),
 "C19": ("exploration",
         "runtime monitor on power iteration under seed sweeps vs prescribed Hermitian spectra (gap-derived bounds)",
         "power_iteration / power_iteration_nonhermitian are run from every seeded start on Hermitian spectra with known gap "
         "ratio and sign pattern; unit norm, boundedness by sigma_1 and the eigen-residual / estimate bounds derived from the "
         "gap and tolerance are judged; non-Hermitian, zero and nilpotent inputs for boundedness.",
         "Bounded-progress restatement: iteration cap computed from the gap ratio.", "7/C19"),
 "C20": ("exploration",
         "runtime monitor enumerating the guard table (entry point x out-of-domain class) with argument digests before/after; converse on boundary shapes",
         "Every cell of the guard table is executed (exhaustive for the table); a cell that returns instead of raising, or "
         "mutates before raising, is a violation; every row is also run on 1x1, 1xn, nx1, rank-0 inputs in five memory "
         "layouts and must return.",
         "The table lists entry points whose signature, docstring or guard states a partial domain (DESIGN.md Appendix C).", "7/C20"),
}

NOT_YET = "monitor not yet built in this round (planned, see DESIGN.md section 7); not claimed until its check runs silent on the unchanged tree"


def main():
    checks, na = [], []
    for pid in sorted(T):
        cat, tech, text, note, ref = T[pid]
        if os.path.exists(os.path.join(HERE, "vq", "monitors", pid.lower() + ".py")):
            checks.append({
                "property_id": pid,
                "quick_cmd": f"./check {pid} --tier quick",
                "thorough_cmd": f"./check {pid} --tier thorough",
                "evidence_file": f"evidence/{pid}.json",
                "replay_cmd_template": f"./check {pid} --replay {{path}}",
                "engine": "vq",
                "level_claimed": {"category": cat, "text": text, "design_ref": "DESIGN.md section " + ref},
                "level_note": note + " Workload classes follow the standing rules 1-20 of DESIGN.md section 7 (scales, exact and NEAR coincidences, "
                              "shapes and size ladder, layouts, histories on the caller's own objects, call forms, storage forms, structured inputs, "
                              "small-but-legitimate data, worst-case constructions, concurrent callers, numpy error state); evidence/<id>.json lists the classes and clause "
                              "counts actually observed.",
                "technique": tech,
            })
        else:
            na.append({"property_id": pid, "reason": NOT_YET})
    man = {
        "version": 1,
        "setup_cmd": "./setup.sh",
        "hooks": {
            "guard": "QUATICA_VERIF",
            "enable": "no source hooks: monitors interpose from the harness by rebinding names in the loaded repository "
                      "modules and use sys.monitoring for branch reach; ./check exports QUATICA_VERIF=1 for uniformity",
            "baseline_off_cmd": BASELINE_OFF,
            "source_commits": [],
            "add_only": True,
        },
        "engines": [{
            "name": "vq", "path": "vq/",
            "serves_properties": [c["property_id"] for c in checks],
            "kind_free_text": "runtime monitoring harness: real functions executed under enumerated / hostile / seeded workloads in "
                              "shard subprocesses; independent oracles (exact rational, float reference algebra, complex adjoint "
                              "+ LAPACK); sys.monitoring branch-reach counters; failpoints by interposition; known-findings classifier",
        }],
        "checks": checks,
        "not_applicable": na,
        "notes": "Runtime monitoring only (no compiler sanitizers: pure-Python target without threads of its own; C06 / C14 drive four concurrent callers from the harness). Exit 0 held / 1 VIOLATION / 3 INCONCLUSIVE. "
                 "Genuine defects repaired by fix: commits are recorded in known_findings.json ('fixed' entries suppress nothing).",
    }
    p = os.path.join(HERE, "MANIFEST.json")
    with open(p, "w") as f:
        json.dump(man, f, indent=1)
        f.write("\n")
    try:
        import jsonschema
        with open("/root/.vp/MANIFEST.schema.json") as f:
            jsonschema.validate(man, json.load(f))
        print("MANIFEST.json valid;", len(checks), "checks,", len(na), "not_applicable")
    except ImportError:
        print("MANIFEST.json written (jsonschema unavailable)")


if __name__ == "__main__":
    sys.exit(main())
