#!/usr/bin/env python3
"""tools/cover_gaps.py <dir> <ids...>: from coverage json files (one per property), list for the files each property is anchored in the
functions whose bodies the property's workload never executes or executes only partly (missing line numbers)."""
import ast, json, os, sys
HERE = os.path.dirname(os.path.dirname(os.path.abspath(__file__)))
d, ids = sys.argv[1], sys.argv[2:]
props = {json.loads(l)["id"]: json.loads(l) for l in open(os.path.join(HERE, "properties.jsonl"))}
for pid in ids:
    p = os.path.join(d, pid + ".json")
    if not os.path.exists(p):
        print(pid, "no coverage data"); continue
    cov = json.load(open(p))["files"]
    print(f"== {pid}: anchored in {props[pid]['anchors']['files']}")
    for f in props[pid]["anchors"]["files"]:
        key = [k for k in cov if k.endswith(f)]
        if not key:
            print(f"   {f}: NOT IMPORTED/EXECUTED"); continue
        info = cov[key[0]]
        missing = set(info["missing_lines"]); executed = set(info["executed_lines"])
        tree = ast.parse(open(key[0]).read())
        for node in ast.walk(tree):
            if isinstance(node, (ast.FunctionDef, ast.AsyncFunctionDef)):
                body = set(range(node.body[0].lineno, node.end_lineno + 1))
                mis = sorted(body & missing); ex = body & executed
                if not mis:
                    continue
                if not ex:
                    print(f"   {f}:{node.lineno} {node.name}: never executed ({len(mis)} lines)")
                else:
                    print(f"   {f}:{node.lineno} {node.name}: partly ({len(ex)} executed, missing {mis[:25]}{'...' if len(mis) > 25 else ''})")
