#!/bin/bash
# tools/refresh_evidence.sh [tier]: run every registered check in /verif against /repo and validate the evidence files
HERE="$(cd "$(dirname "${BASH_SOURCE[0]}")/.." && pwd)"; cd "$HERE"
TIER="${1:-quick}"; bad=0
for i in $(seq -w 1 20); do
  id="C$i"; ./check $id --tier "$TIER" > /tmp/refresh_$id.log 2>&1; rc=$?
  echo "$id rc=$rc $(grep -v '^KNOWN' /tmp/refresh_$id.log | tail -n1 | cut -c1-140)"
  [ $rc -ne 0 ] && bad=$((bad+1))
done
python3-vt - <<'PY'
import json, jsonschema, glob
sch = json.load(open('/root/.vp/EVIDENCE.schema.json'))
for f in sorted(glob.glob('evidence/*.json')):
    jsonschema.validate(json.load(open(f)), sch)
print("all evidence files valid")
PY
echo "non-zero exits: $bad"
