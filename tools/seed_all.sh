#!/bin/bash
# tools/seed_all.sh: re-evaluate every stored seeded change against the current checks and refresh seeded/*/meta.json
HERE="$(cd "$(dirname "${BASH_SOURCE[0]}")/.." && pwd)"
for d in "$HERE"/seeded/C*; do
  n="$(basename "$d")"; id="${n:0:3}"
  echo "== $n"; "$HERE/tools/seed_eval.sh" "$id" "$d" "$n" 2>&1 | grep "^demo:\|^RESULT\|^check"
done
python3 "$HERE/tools/seed_meta.py"
