#!/bin/bash
# tools/mutants_all.sh: run every own mutant against its owner's quick check; prints MISSED lines and a summary
HERE="$(cd "$(dirname "${BASH_SOURCE[0]}")/.." && pwd)"
tot=0; miss=0
for d in "$HERE"/mutants/C*; do
  id="$(basename "$d")"
  for p in "$d"/*.diff; do
    out="$("$HERE/tools/mutant.sh" "$p" "$id" quick 0 2>&1)"; rc=$?
    nv=$(echo "$out" | grep -c '^VIOLATION')
    tot=$((tot+1))
    if [ $rc -eq 1 ] && [ "$nv" -gt 0 ]; then :; else miss=$((miss+1)); echo "MISSED $id $(basename "$p") rc=$rc"; fi
  done
done
echo "own mutants: $tot total, $miss missed"
