#!/bin/bash
# tools/seed_sweep.sh <verif-seed> [jobs=5]: every kept seeded change against its owner's QUICK check at the given VERIF_SEED (the kept
# logs are not touched); prints the ones that are not caught. A change caught at seed 0 only would be a lucky catch.
HERE="$(cd "$(dirname "${BASH_SOURCE[0]}")/.." && pwd)"
SEED="${1:-1}"; J="${2:-5}"
ls -d "$HERE"/seeded/C* | xargs -P "$J" -I{} bash -c 'd="{}"; n="$(basename "$d")"; id="${n:0:3}"; nv=$("'"$HERE"'/tools/mutant.sh" "$d/patch.diff" "$id" quick '"$SEED"' 2>&1 | grep -c "^VIOLATION"); [ "$nv" -gt 0 ] || echo "NOT CAUGHT at seed '"$SEED"': $n"'
echo "seed_sweep seed=$SEED done"
