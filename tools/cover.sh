#!/bin/bash
# tools/cover.sh [tier=quick] [ids...]: development aid. Runs the checks with line coverage of /repo/quatica collected in the shard processes
# and prints, per property, the functions of the anchored files that the workload never or only partly executes (tools/cover_gaps.py).
# Needs the `coverage` package of /venv (present in this sandbox); not used by any registered command.
HERE="$(cd "$(dirname "${BASH_SOURCE[0]}")/.." && pwd)"
TIER="${1:-quick}"; shift
IDS="${@:-C01 C02 C03 C04 C05 C06 C07 C08 C09 C10 C11 C12 C13 C14 C15 C16 C17 C18 C19 C20}"
D="$(mktemp -d /tmp/vqcov-XXXXXX)"; O="$(mktemp -d /tmp/vqcovo-XXXXXX)"
for id in $IDS; do
  VQ_COVER_DIR="$D" VQ_OUT="$O" "$HERE/check" "$id" --tier "$TIER" --seed 0 | tail -1 | cut -c1-150
  (cd "$D" && /venv/bin/python -m coverage combine --data-file ".cov.$id" .coverage.$id.* >/dev/null 2>&1 && /venv/bin/python -m coverage json --data-file ".cov.$id" -o "$id.json" >/dev/null 2>&1)
done
/venv/bin/python "$HERE/tools/cover_gaps.py" "$D" $IDS
rm -rf "$D" "$O"
