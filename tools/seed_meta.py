#!/usr/bin/env python3
"""tools/seed_meta.py: (re)write seeded/<id>/meta.json from the sub-agent's meta, the recorded check logs and the notes below."""
import json, os, re, glob
HERE = os.path.dirname(os.path.dirname(os.path.abspath(__file__)))
NOTES = {
 "C01": ("missed at first", "sign-pattern entry classes (non-positive / non-negative / -I) added to gen.py and to the C01 law cases"),
 "C02": ("missed at first", "extreme-magnitude (1e-170, 1e-300, subnormal, 1e300, mixed) and signed-zero classes with exact (T1) clauses, bitwise round trip, injectivity"),
 "C03": ("caught by thorough only (marginally)", "trajectory bound calibrated to eps*kappa (damped) / eps*kappa^2 (third order); long-run ill-conditioned class (kappa up to 1e6, tracked and untracked) in the quick tier"),
 "C04": ("caught", ""),
 "C05": ("caught only through a clause that was stricter than the property (bitwise truncated == full), which was relaxed; then missed", "extreme aspect ratios (m > 4n, n > 4m) for every multiplicity pattern and structured column dependencies (duplicated / right-multiple / zero / combination columns at non-last positions)"),
 "C06": ("missed at first (masked by the rank-deficiency finding)", "signed-zero column classes; the finding's mechanism tag now excludes exactly-zero columns of an otherwise generic matrix (generator ground truth), which the routine handles"),
 "C07": ("missed at first", "forced-pivot class with multipliers confined to one quaternion axis (exact dyadic values, real dyadic diagonal of U)"),
 "C08": ("caught", ""),
 "C09": ("inconclusive at first (an internal must-reach branch was bypassed), then missed", "internal branch reach made informational; exact-cancellation column tails (+1,-1 / i,j,-i-j) and equal-modulus tails"),
 "C10": ("caught (barely)", "similarity constant calibrated from 1e3 to 30; classes scaled by 1e5 / integer 3e3 / Hermitian 1e4"),
 "C11": ("missed at first", "uniform scalings 1e-15 .. 1e12 on a quarter of the rank / null-space cases"),
 "C12": ("missed at first (caught by the C14 battery after the in-place-update clause was added)", "every configuration ends with an in-place update of the same array object followed by another call, judged against the oracle of the new contents"),
 "C13": ("first 'caught' only because the harness wrapper did not accept the new keyword (a harness false alarm, fixed); then missed", "signature-agnostic capture wrapper; seeds passed through the constructor in half of the runs; test sketch size equal to the block size in a third of the runs"),
 "C14": ("missed at first", "battery run on size variants 1, 2, 3, 5 of every role in 5 layouts; repeat-call and in-place-update clauses"),
 "C15": ("missed at first", "all norms re-evaluated on Fortran / strided / transposed / read-only layouts and on the library's own conjugate-transpose view; ||A^H||_1 = ||A||_inf"),
 "C17": ("missed at first", "call histories inside one process: identical taps in different kernel shapes, the same kernel on other image sizes, kernel updated in place"),
 "C18": ("caught", ""),
 "C19": ("inconclusive at first (AST locator no longer matched), then missed", "locator-missing fallback; scalings 1e-13 .. 1e9 of the Hermitian classes, 1e-14 .. 1e12 of the boundedness classes"),
 "C20": ("missed at first", "structured non-Hermitian classes (non-real diagonal only, single entry, corner entry, real-part asymmetry, one non-conjugated pair, transpose-symmetric) for every Hermitian-only entry point, also in C08"),
}
NOTES.update({
 "C01-2": ("caught (one case only)", "entry class sum_zero (x + y + z = 0 exactly) added"),
 "C02-2": ("missed at first", "Realp with Python ints / numpy scalars and with one component plane in int8/int32/int64/float32"),
 "C03-2": ("caught", ""),
 "C04-2": ("caught by thorough only (marginally)", "matrix classes clustered_eigs / near_identity and right-hand side near_eigvec: Krylov spaces that are nearly, not exactly, invariant"),
 "C05-2": ("caught", ""),
 "C06-2": ("missed at first", "full-rank classes with columns / rows graded down to 1e-30 relative"),
 "C07-2": ("caught", ""),
 "C08-2": ("caught", ""),
 "C09-2": ("caught (two cases only)", ""),
 "C10-2": ("caught", ""),
 "C11-2": ("caught", ""),
 "C12-2": ("caught", ""),
 "C13-2": ("caught by thorough only", "hybrid solver with block size 6 = width of its internal test sketch on matrices with 7..9 columns, constructor seed"),
 "C14-2": ("missed by C14 (caught by C08's input_unchanged)", "battery re-run on structured variants of every role: decoupled leading entry, diagonal, zero, triangular, integer (writable and read-only)"),
 "C15-2": ("missed at first", "legacy Krylov norm on scipy csc / lil / COO-with-duplicates / explicit-zero components"),
 "C16-2": ("missed at first", "triangular systems whose diagonal entries are pure, single-axis or negative real"),
 "C17-2": ("caught", ""),
 "C18-2": ("missed at first", "metrics on uint8 / int16 / uint16 / int32 / float32 images incl. differences that are multiples of 16"),
 "C19-2": ("missed at first", "Hermitian [0] (+) H with isolated first coordinate; lower nilpotent; zero first row / last column"),
 "C20-2": ("caught", ""),
})
NOTES.update({
 "C01-3": ("caught", ""),
 "C02-3": ("caught", ""),
 "C03-3": ("caught", ""),
 "C04-3": ("caught", ""),
 "C13-3": ("caught", ""),
 "C16-3": ("caught", ""),
 "C05-3": ("caught by thorough only", "sign-pattern entry classes (real non-positive, non-positive, non-negative, exact cancellations, mixed magnitudes) in the quick tier"),
 "C06-3": ("caught", ""),
 "C07-3": ("missed at first", "exact (dyadic) deficiency first showing at elimination step c for EVERY c of tall, square and wide shapes: the zero-pivot guard has to fire at the first, an interior and the last diagonal position"),
 "C08-3": ("caught", ""),
 "C09-3": ("missed at first", "near-Hessenberg inputs (sub-Hessenberg part of relative size 1e-4 .. 1e-12, one size per column) and graded columns: small is not negligible"),
 "C10-3": ("caught", ""),
 "C11-3": ("caught by thorough only", "extreme aspect ratios (m >= 4n, n >= 4m) for every rank in the quick tier"),
 "C12-3": ("caught", ""),
 "C14-3": ("missed at first", "CGNE configurations with sketch rank 2 and 3 (at rank 1 the result does not depend on the sketch at all), with and without constructor seed"),
 "C15-3": ("caught", ""),
 "C17-3": ("missed at first", "per-channel amplitudes (1e-20 .. 1e8, mixed within one image); every blur / restoration clause is judged per channel relative to that channel"),
 "C18-3": ("caught", ""),
 "C19-3": ("caught", ""),
 "C20-3": ("caught", ""),
})
NOTES.update({
 "C01-4": ("missed at first", "operands beyond every plausible size threshold (more than 1024 entries, sides 17..129, inner dimension 1500, density 80 %) on every storage path"),
 "C02-4": ("caught by thorough only", "size ladder (more than 64 entries, sides 9..70) in the quick tier, in all memory layouts"),
 "C03-4": ("caught by thorough only", "trajectory shapes with a dimension above 16 in the quick tier"),
 "C04-4": ("missed at first (n <= 24 everywhere)", "systems with n = 34, 36 (66 thorough): weighted cyclic shift with b = e_1 (no progress before cycle n) and generic"),
 "C05-4": ("missed at first", "size ladder 25x25 .. 40x32 (65 thorough) with every truncation rank"),
 "C06-4": ("caught", "size ladder added anyway"),
 "C07-4": ("caught by thorough only", "size ladder 16..40 (square, tall, wide; ties force late interchanges) in the quick tier"),
 "C08-4": ("missed at first", "size ladder n = 9..33 (66 thorough)"),
 "C09-4": ("caught by thorough only", "size ladder n = 9..34 in the quick tier (n, n-1, n-2 multiples of 16)"),
 "C10-4": ("caught", "size ladder n = 13, 17 added anyway"),
 "C11-4": ("missed at first", "determinants for n = 9..33 (multiples of 16 and neighbours), rank / null space up to 33 x 20"),
 "C12-4": ("missed at first", "size ladder 40x24 .. 70x26 (130x6 thorough), exact-rank and generic, even and odd pass counts"),
 "C13-4": ("caught", "size ladder (more than 8 / 16 columns) added anyway"),
 "C14-4": ("caught (by the long histories with raising calls added just before this round was evaluated)", ""),
 "C15-4": ("caught by thorough only", "size ladder 17..40 with structured (Hermitian, negative definite) classes in the quick tier"),
 "C16-4": ("caught by thorough only", "size ladder k, n = 9..33 in the quick tier"),
 "C17-4": ("missed at first", "images with sides above 32 that are not 5-smooth (33, 34, 35, 37, 41) and aspect ratios above 3"),
 "C18-4": ("caught", "larger tensors added anyway"),
 "C19-4": ("caught", "size ladder n = 12..33 at gap ratio 0.8 added anyway"),
 "C20-4": ("missed at first", "LARGE (n = 17..130) arguments that violate A = A^H in one entry at even / odd / first / last positions, for every Hermitian-only entry point"),
})
NOTES.update({
 "C02-5": ("caught", ""),
 "C04-5": ("caught", ""),
 "C16-5": ("missed at first", "the optional tol argument of the component-form triangular solver: explicit values well below the smallest diagonal modulus, keyword / positional / numpy float / zero"),
 "C01-5": ("missed at first", "argument relations: the same object as both factors, transpose / reversed views of one buffer, a result fed back as an operand, on all storage paths, with the caller's own objects"),
 "C03-5": ("caught", ""),
 "C05-5": ("missed at first", "truncation rank passed as numpy signed / unsigned integer"),
 "C06-5": ("caught", ""),
 "C07-5": ("missed at first (the monitor handed a fresh copy to every call, which hides caches keyed on object identity / buffer address)", "call histories with the caller's own objects: in-place update, transposed / reversed / sub-block views of the previous argument, returned factors overwritten"),
 "C08-5": ("caught", ""),
 "C09-5": ("caught", ""),
 "C10-5": ("caught", ""),
 "C11-5": ("caught", ""),
 "C12-5": ("missed at first", "rank / oversampling / iteration counts as numpy integers; the reproducibility call uses plain ints, so the two forms are also compared bitwise"),
 "C13-5": ("caught", ""),
 "C14-5": ("missed at first (quat_eye was not in the battery)", "16 more entry points in the battery; every returned array is overwritten by the caller before the call is repeated; views of the previously used buffer"),
 "C15-5": ("missed at first", "every accepted spelling of ord (np.inf, float('inf'), math.inf, numpy float / int / str scalars, keyword and positional) judged against the oracle norm"),
 "C17-5": ("missed at first", "integer-weight kernels in integer dtypes, lambda as int / numpy scalars, restoration from the matrices of the application's builders and from an explicit matrix in the kernel's dtype"),
 "C18-5": ("missed at first", "real_part omitted / positional / Python int / numpy integer / float32; result dtype checked"),
 "C19-5": ("caught", ""),
 "C20-5": ("missed at first", "converse table: in-domain option values as numpy integers / floats / strings, keyword instead of positional, lists and numpy-integer tuples for shapes"),
})
NOTES.update({
 "C01-6": ("caught", ""),
 "C02-6": ("missed at first (the change was made in quat_matmat, which the C02 monitor did not call: products were formed by the oracle)", "homomorphism also with the product formed by the library; entry class two_axis (only two of the four component planes populated)"),
 "C03-6": ("caught", ""),
 "C04-6": ("caught", ""),
 "C16-6": ("caught", ""),
 "C05-6": ("caught", ""),
 "C06-6": ("caught", ""),
 "C07-6": ("caught by thorough only", "every forced pivot order again on exactly scaled copies (2^-30, 2^-40, 2^30); scaled_small class down to 1e-12"),
 "C08-6": ("caught", ""),
 "C09-6": ("caught", ""),
 "C10-6": ("caught", ""),
 "C11-6": ("missed at first", "structured Hermitian inputs for the Moore determinant: zero sub-diagonal entry with non-zero tail, arrow, sparse, block diagonal, tridiagonal, real symmetric"),
 "C12-6": ("caught", ""),
 "C13-6": ("caught", ""),
 "C14-6": ("missed at first", "the whole battery at exact extreme scalings (2^-540, 2^505); arguments are judged even when the call raises"),
 "C15-6": ("missed at first", "spectral norm of exactly scaled matrices whose squared entries under- or overflow (2^-560 .. 2^520)"),
 "C17-6": ("caught", ""),
 "C18-6": ("missed at first", "positions of the moduli for every tensor memory order (C, Fortran, permuted and reversed views, the views unfold / fold hand out)"),
 "C19-6": ("caught", ""),
 "C20-6": ("caught", ""),
})
NOTES.update({
 "C01-7": ("missed at first", "persistent operand objects (one dense array, one sparse container) across several products with in-place updates in between"),
 "C02-7": ("missed at first (the round-trip clause compared with ==, which does not see the sign of a zero)", "bit-for-bit comparison; conjugate-transposed, negated and mixed-zero-sign inputs"),
 "C03-7": ("missed at first", "the same sparse container solved again after its stored values were updated in place"),
 "C05-7": ("caught", ""),
 "C06-7": ("missed at first: the failing cases were attributed to the open finding F-C06-c because the mechanism tag used a numerical rank threshold", "column-graded full-rank classes carry no rank tag (generator truth: QR is invariant under column scaling); graded last pivot column class"),
 "C07-7": ("missed at first", "well-conditioned matrices scaled exactly by 2^-500 .. 2^-600: either an exception or factors that reproduce A after exact back-scaling"),
 "C08-7": ("missed at first", "non-Hermitian inputs with widely graded entries (diagonal entry 4e6 .. 1e12 next to an O(1) asymmetry in small entries), also in C20"),
 "C09-7": ("missed at first", "nearly Hermitian inputs (relative asymmetry 1e-5 .. 1e-12)"),
 "C10-7": ("caught", ""),
 "C11-7": ("caught by thorough only", "determinants of exactly scaled matrices (2^+-60, 2^+-100) in the quick tier"),
 "C12-7": ("missed at first", "exact power-of-two scalings of the whole problem (2^-200 .. 2^100), exact-rank without oversampling so that no finding tag applies"),
 "C13-7": ("caught", ""),
 "C14-7": ("caught", ""),
 "C17-7": ("missed at first", "lambda = 0 on badly conditioned but invertible blurs (wide Gaussians, kappa 1e6 .. 1e9), bound governed by kappa(A)"),
 "C18-7": ("missed at first", "SNR of the noise injection on images of one to nine pixels with 20000 draws; per-draw chi-square quantiles"),
 "C19-7": ("missed at first", "Hermitian scales beyond machine epsilon (2^-56, 2^-60, 1e-30, 2^-200, 1e30)"),
 "C20-7": ("missed at first", "unknown option values paired with inputs / budgets for which the option is never consulted (triangular, diagonal, identity, zero, 1x1, max_iter = 0, zero right-hand side)"),
})
NOTES.update({
 "C04-7": ("missed at first", "uniform scalings 1e-6 / 1e-9 crossed with fast-but-not-one-step converging classes (identity plus a small low-rank term, near identity, clustered eigenvalues) at tolerances 1e-10 / 1e-12"),
 "C15-7": ("caught", ""),
 "C16-7": ("missed at first", "right-hand sides with exact-zero structure (zero first / last column, zero leading / trailing rows, single entry, unit vectors) and column independence of the block solve"),
 "C04-8": ("caught", ""),
 "C15-8": ("caught", ""),
 "C16-8": ("caught", ""),
 "C01-8": ("missed at first", "every product returned during a history is kept and re-checked after the later calls (a result must not be a view of an internal buffer); also for every battery entry in C14"),
 "C02-8": ("caught", ""),
 "C03-8": ("missed at first (a fresh solver object per call)", "one solver object used for an unrelated problem and then twice for the judged one: iterate and histories equal a fresh solver's"),
 "C05-8": ("caught", ""),
 "C06-8": ("caught", ""),
 "C07-8": ("caught", ""),
 "C08-8": ("missed at first", "Hermitian violations confined to ONE component (w, i, j or k) of one entry / the diagonal / a wrongly symmetric pair, in C08 and the C20 table"),
 "C09-8": ("caught", ""),
 "C10-8": ("caught", ""),
 "C11-8": ("caught", ""),
 "C12-8": ("missed at first", "matrices with more than 256 rows or columns (300x6, 5x270, 257x4, 130x129), exact rank"),
 "C13-8": ("caught", ""),
 "C14-8": ("caught", ""),
 "C17-8": ("caught by thorough only", "even-sized kernels whose values equal their own 180-degree flip (box, half-sample Gaussian, symmetrised random)"),
 "C18-8": ("missed at first", "the four channels in different dtypes (uint8 / int64 / bool / float32 real part next to float64 colours and vice versa)"),
 "C19-8": ("missed at first", "nilpotent (strictly triangular) inputs and the documented options res_tol in {1e-10, None, 1e-6} x block_purify in {True, False} for the complex-adjoint variant"),
 "C20-8": ("caught", ""),
})
NOTES.update({
 "C01-9": ("missed at first", "SparseQuaternionMatrix containers whose components arrive in every scipy storage form (gen.sparse_storage_forms: raw CSR with duplicate / cancelling duplicate entries, unsorted indices, stored zeros, COO with repeated coordinates, DIA with junk padding, CSC / LIL / DOK / BSR, mixed per component) for norm, ^H and the products; same forms for the C15 Frobenius entry points"),
 "C02-9": ("caught", ""),
 "C03-9": ("caught by thorough only", "tolerance TUNED per run from the spectral model so that it lies between ||XAX-X|| and ||AXA-A|| of one iterate (s_min in {3,5,8}); fixed tolerances almost never fall into that window for the cubically convergent solver"),
 "C04-9": ("caught by thorough only", "Jordan-block classes (repeated non-real quaternion diagonal, upper and lower) with the right-hand side that leaves an eigenvector as first-cycle residual: an almost invariant Krylov space at an inner Arnoldi step of the last cycle"),
 "C05-9": ("caught", ""),
 "C06-9": ("missed at first (masked twice: by the rank_deficient tag of F-C06-b and by the graded tag of F-C06-d computed from a numerically singular leading block)", "class dependent_last_column (tall/square, well-conditioned leading n-1 columns from the generator, last column a copy / multiple / sum; small integers mostly): carries no rank tag and no graded tag because the routine is provably and observably (36000 probes) correct there; 4000 cases in quick since the exact cancellation needs about 1 input in 100"),
 "C07-9": ("caught", ""),
 "C08-9": ("caught", ""),
 "C09-9": ("caught", ""),
 "C10-9": ("missed at first", "already-Hessenberg inputs whose sub-diagonal entries lie along ONE axis each (w / i / j / k all visited), one single sub-diagonal entry on a triangular matrix, and tiny (1e-5..1e-7) single-axis sub-diagonals"),
 "C11-9": ("caught", ""),
 "C12-9": ("missed at first", "exact column structure at NON-trailing positions (right multiple, sum of two, zero column) with R + oversample >= n and n_iter in {0, 1}; spectrum recomputed by the oracle"),
 "C13-9": ("caught (one run only)", "hybrid test sketch captured at the numpy generator boundary so that the last reported proxy is recomputed exactly; configurations that converge INSIDE a cycle (T >= 10, wide blocks), with a must-reach counter"),
 "C14-9": ("caught", ""),
 "C15-9": ("caught", "all scipy storage forms for normQsparse and matrix_norm on containers"),
 "C16-9": ("caught", ""),
 "C17-9": ("caught", ""),
 "C18-9": ("missed at first", "images whose three colour channels live on different scales (one 8-bit style, one small, one that alone looks normalized) and images with a single pixel outside the normalized window: the default quat_to_rgb must return them unchanged"),
 "C19-9": ("caught", ""),
 "C20-9": ("caught", ""),
})
for d in sorted(glob.glob(os.path.join(HERE, "seeded", "C*"))):
    pid = os.path.basename(d)[:3]
    agent = {}
    p = os.path.join(d, "meta.agent.json")
    if os.path.exists(p):
        try:
            agent = json.load(open(p))
        except Exception:
            agent = {"raw": open(p).read()[:2000]}
    caught = None
    first_clause = None
    for tier in ("quick", "thorough"):
        lp = os.path.join(d, f"check_{tier}.log")
        if os.path.exists(lp):
            txt = open(lp).read()
            if re.search(r"^VIOLATION", txt, re.M):
                caught = tier
                m = re.search(r"clause=(\S+) site=(\S+)", txt)
                first_clause = f"{m.group(1)} @ {m.group(2)}" if m else None
                break
    note = NOTES.get(os.path.basename(d), ("", ""))
    meta = {
        "property": pid,
        "origin": "independent sub-agent given only the property text and a scratch worktree of /repo",
        "summary": agent.get("summary"),
        "needs": agent.get("needs"),
        "files_touched": agent.get("files_touched"),
        "agent_tests_run": agent.get("tests_run"),
        "confirmed": "tools/seed_eval.sh: demo.py exits 0 on a fresh worktree of /repo HEAD and 1 with patch.diff applied; the owner's check run on the patched worktree (logs check_quick.log / check_thorough.log)",
        "caught_by": (f"{pid} {caught} check" if caught else "not caught"),
        "first_violated_clause": first_clause,
        "initial_outcome": note[0],
        "strengthening": note[1],
    }
    json.dump(meta, open(os.path.join(d, "meta.json"), "w"), indent=1)
    print(pid, meta["caught_by"], "|", first_clause)
