#!/usr/bin/env python3
"""tools/ev.py <evidence.json>: print the clause table, reach map and inconclusive reasons of an evidence file."""
import json, sys
e = json.load(open(sys.argv[1])); c = e["coverage"]
print(e["property_id"], e["tier"], "seed", e["seed"], "evals", c["evaluations"], "distinct", c["distinct_nontrivial"], "wall", e["wall_s"])
for k, v in sorted(c["clauses"].items()):
    print(f"  {k:42s} eval={v['evaluated']:7d} held={v['held']:7d} viol={v['violated']:5d} skip={v['skipped']:5d} max_ratio={v['max_ratio']:.3g}")
print("  reach:", {k: v for k, v in sorted(c["branch_reach"].items())})
print("  inconclusive:", c["inconclusive_reasons"], "known:", c["known_findings_observed"])
