#!/bin/bash
# Offline setup: install icontract (wheelhouse) beside the repository's interpreter, self-test the oracle.
HERE="$(cd "$(dirname "${BASH_SOURCE[0]}")" && pwd)"
cd "$HERE" || exit 2
mkdir -p .deps .work witness evidence
if [ ! -d .deps/icontract ]; then
  PIP_NO_INDEX=1 /venv/bin/pip install --quiet --no-index --find-links /opt/veriftools/wheels \
      --target .deps icontract || echo "setup: icontract not installed (contracts fall back to plain monitors)"
fi
export OPENBLAS_NUM_THREADS=1 PYTHONHASHSEED=0 PYTHONDONTWRITEBYTECODE=1
PYTHONPATH="$HERE:$HERE/.deps" /venv/bin/python -m vq.cli selftest
